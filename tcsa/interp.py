"""Builds the inlined effect graph of one trash-cli command (DESIGN §3.5)."""
from .icore import CoreMixin, Env, Frame
from .iexpr import ExprMixin
from .icall import CallMixin
from .istmt import StmtMixin
from .model import AnalysisError
from .terms import *  # noqa


class Builder(CoreMixin, ExprMixin, CallMixin, StmtMixin):
    def __init__(self, program):
        self.init_core(program)
        self.loop_depth = 0

    def build(self, cmd):
        func = self.p.entry(cmd)
        return self.build_from(func, cmd)

    def build_from(self, func, label, args=None):
        g = self.g
        self.frame = Frame(func, func.module, Env(), (), 0)
        g.entry = self.new_node('entry', func.node, {'cmd': label})
        g.exit = self.new_node('exit', func.node)
        g.escape = self.new_node('escape', func.node)
        self.cur = g.entry
        bound = self.bind_params(func, args or [], {}, func.node)
        if bound is None:
            raise AnalysisError('entry point %s takes arguments' % func.qualname)
        self.frame.env.vars.update(bound)
        self.frame.ret_target = g.exit
        self.active.append(func)
        self.exec_block(func.node.body)
        if self.cur is not None:
            self.goto(g.exit)
        self.active.pop()
        return Built(self, label, func)


class Built(object):
    def __init__(self, b, label, func):
        self.b = b
        self.g = b.g
        self.p = b.p
        self.label = label
        self.func = func
        self.diags = b.diags
        self.stats = b.stats
        self.live = self.g.live()

    # convenience ----------------------------------------------------------
    def nodes(self, *kinds):
        return [n for n in self.g.nodes if n.id in self.live and
                (not kinds or n.kind in kinds)]

    def effects(self, *kinds):
        return [n for n in self.nodes('effect') if not kinds or n.data['kind'] in kinds]

    def probes(self):
        return self.nodes('probe')

    def unconsumed_generators(self):
        return [x for x in self.b.gen_objs if x.consumed == 0 and
                (x.site in self.live)]

    def summary(self):
        from collections import Counter
        c = Counter(n.kind for n in self.nodes())
        return dict(nodes=len(self.live), by_kind=dict(c), stats=dict(self.stats),
                    diags=len(self.diags))


_cache = {}


def build(program, cmd):
    key = (id(program), cmd)
    if key not in _cache:
        _cache[key] = Builder(program).build(cmd)
    return _cache[key]
