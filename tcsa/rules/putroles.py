"""Role discovery on the trash-put graph (no function names hard-coded: roles are
found from effects, argparse declarations and data flow)."""
from .common import *  # noqa
from ..model import AnalysisError


class PutRoles(object):
    def __init__(self, ctx):
        b = ctx.graph('put')
        self.b = b
        g = b.g
        self.g = g
        opts = argparse_options(b)
        self.opts = opts
        pos = [o for o in opts if o['flags'] and not o['flags'][0].startswith('-')]
        ctx.require(pos, 'put: no positional file arguments declared (anchor vanished)')
        self.files_dest = pos[0]['dest']
        # per-argument loop: a loop iterating the positional option value
        self.arg_loops = []
        for n in b.nodes('loop'):
            it = n.data.get('iter')
            if it is not None and any(is_option_value(a, self.files_dest) for a in flat(it)):
                self.arg_loops.append(n)
        ctx.require(self.arg_loops, 'put: loop over the file arguments not found')
        self.arg_loop = self.arg_loops[0]
        self.arg_iteration = [t for t, l in g.succ[self.arg_loop.id]
                              if g.n(t).kind == 'iteration']
        ctx.require(self.arg_iteration, 'put: body of the argument loop not found')
        self.arg_iteration = self.arg_iteration[0]
        self.ARG = g.n(self.arg_iteration).data['value']
        self.arg_ids = alt_ids(self.ARG)
        # effects
        muts = mutating_effects(b)
        self.muts = muts
        self.opens = [e for e in muts if e.data['kind'] == 'OPEN_FD']
        self.writes = [e for e in muts if e.data['kind'] == 'WRITE']
        self.closes = [e for e in muts if e.data['kind'] == 'CLOSE']
        self.moves = [e for e in muts if e.data['kind'] == 'MOVE']
        self.deletes = [e for e in muts if e.data['kind'] == 'DELETE']
        self.mkdirs = [e for e in muts if e.data['kind'] == 'CREATE_DIR']
        # loops dominating the creation of the info file
        self.candidate_loops = []
        anchor = (self.opens or self.moves or self.muts or [None])[0]
        for d in (g.dominators(anchor.id) if anchor is not None else []):
            n = g.n(d)
            if n.kind == 'loop' and n.id != self.arg_loop.id and \
                    g.dominates(self.arg_loop.id, n.id) and n.data.get('kind') == 'for':
                self.candidate_loops.append(n)

    def is_arg(self, t):
        return cid(t) in self.arg_ids

    def mentions_arg(self, t):
        return contains(t, self.is_arg)

    def info_of(self, o):
        return o.data['roles']['path']

    def body_nodes(self):
        """Nodes of one iteration of the argument loop."""
        return self.g.reachable_from(self.arg_iteration, blocked=[self.arg_loop.id])


def os_flags(t):
    """Set of os.O_* names or-ed together in a flags term (None when not foldable)."""
    names = set()
    ok = True

    def rec(x):
        nonlocal ok
        x = strip(x)
        if isinstance(x, Bin) and x.op == '|':
            rec(x.left)
            rec(x.right)
        elif isinstance(x, ExtRef) and x.qualname.startswith('os.O_'):
            names.add(x.qualname[3:])
        elif isinstance(x, Phi):
            ok = False
        else:
            ok = False
    rec(t)
    return names if ok else None


def left_class_sites(b, val):
    """[(obj, site)] of alternatives of val that are failure objects (class Left),
    and the list of the success ones (class Right)."""
    lefts, rights, other = [], [], []
    for a, o in alts(val):
        a2 = strip(a)
        if isinstance(a2, Obj) and a2.cls.name == 'Left':
            lefts.append(a2)
        elif isinstance(a2, Obj) and a2.cls.name == 'Right':
            rights.append(a2)
        else:
            other.append(a2)
    return lefts, rights, other


def is_left_test(c):
    """X when c = isinstance(X, Left) (or X.is_error())."""
    c = strip(c)
    if isinstance(c, Call) and c.fn == 'isinstance' and len(c.args) == 2:
        k = strip(c.args[1])
        if isinstance(k, ClsRef) and k.cls.name == 'Left':
            return c.args[0]
    return None
