"""C03 -- every .trashinfo is spec-conformant and decodes back exactly."""
import ast

from .common import *  # noqa
from .putroles import PutRoles
from .readroles import *  # noqa

EXPLANATION = (
    'Agreement of the writer and the readers, decided on folded constants and wired '
    'functions: (R03.1) the Path hole is urllib.parse.quote(x, safe) with safe folding to '
    'a subset of "/" and no errors= argument; every reader applies exactly '
    'urllib.parse.unquote, once, to the text after the key -- the algebraic fact '
    'unquote(quote(s, safe)) == s iff "%" not in safe, lifted to which functions and '
    'constants are wired; (R03.2) the written buffer folds to "[Trash Info]\\nPath=" '
    '<quote> "\\nDeletionDate=" <strftime> "\\n" encoded as UTF-8, holes ASCII-only; '
    '(R03.3) strftime format == strptime format minus the key == %Y-%m-%dT%H:%M:%S, applied to the clock reading itself (no arithmetic on it), '
    'first-match semantics for both keys; (R03.4) key literals of the template equal the '
    'prefixes the readers test and the slice offsets equal their lengths.  The law for '
    'all strings itself is delegated to the stdlib algebra (trusted).')
ASSUMPTIONS = ['A2 quote/unquote algebra, strftime/strptime inverse for this format',
               'original locations contain no NUL and the clock yields years >= 1000']
MINIMUM = {'R03.1': 4, 'R03.2': 1, 'R03.3': 3, 'R03.4': 4, 'R03.5': 2}
TEMPLATE = '[Trash Info]\nPath=%s\nDeletionDate=%s\n'
DATEFMT = '%Y-%m-%dT%H:%M:%S'


# rules of sibling properties that are necessary conditions of this one too
# (evaluated by the sibling module on the same graphs, reported under this property)
ALSO = {'C02': {'R02.2': 'the decoded location is used as recorded: join(volume, unquote(Path)), '
                  'not re-resolved against the file system at restore time'},
 'C16': {'R16.4': 'the recorded Path is computed for this argument and candidate, not '
                  'remembered'},
 'C18': {'R18.2': 'realpath is applied to the parent of the entry only, so the recorded location is the one of the entry named',
         'R18.4': 'the recorded location is that of the entry named (only the parent is '
                  'resolved)'}}

def check(ctx):
    r = PutRoles(ctx)
    b, g = r.b, r.g
    ctx.require(r.writes, 'C03: no WRITE of the .trashinfo content in the put graph')
    writer_fmt = None
    for w in r.writes:
        data = w.data['roles']['data']
        fmts = [x for x in walk(data) if isinstance(x, Fmt) and 'Trash Info' in x.template]
        ok = len(fmts) == 1 and fmts[0].template == TEMPLATE
        ctx.ob('R03.2', 'written buffer folds to the spec template', ok, node=w,
               message='the .trashinfo content is %r, not %r'
                       % ([f.template for f in fmts], TEMPLATE))
        enc = [x for x in walk(data) if isinstance(x, MCall) and x.name == 'encode']
        okenc = bool(enc) and all(
            (x.args and is_const(strip(x.args[0]), 'utf-8', 'utf8', 'UTF-8')) or not x.args
            for x in enc)
        ctx.ob('R03.2', 'content is encoded as UTF-8', okenc, node=w,
               message='the content is not encoded with UTF-8')
        if not fmts:
            continue
        holes = fmts[0].args
        # ---- Path hole
        qs = [x for h in holes[:1] for x in flat(h)]
        for q in qs:
            okq = is_call(q, 'urllib.parse.quote')
            safe = None
            if okq:
                safe = q.args[1] if len(q.args) > 1 else dict(q.kwargs).get('safe', Const('/'))
                safe = strip(safe)
                raw = contains(q.args[0], lambda x: (isinstance(x, Call) and x.fn in (
                    'os.fsencode', 'bytes', 'urllib.parse.unquote', 'urllib.parse.unquote_plus',
                    'urllib.parse.quote', 'urllib.parse.quote_plus')) or
                    (isinstance(x, MCall) and x.name in ('encode', 'decode', 'replace',
                                                        'strip', 'rstrip', 'lstrip',
                                                        'lower', 'upper')))
                okq = not raw and isinstance(safe, Const) and isinstance(safe.value, str) and \
                    set(safe.value) <= {'/'} and \
                    not any(k in ('errors', 'encoding') for k, _ in q.kwargs) and \
                    len(q.args) <= 2
            ctx.ob('R03.1', 'Path is written as quote(x, safe) with safe within "/"', okq,
                   node=w, message='the Path value is produced by %s: characters such as '
                                   '"%%", newline or "=" are not (all) escaped, or the '
                                   'readers cannot invert it' % short(q, 80))
        # ---- date hole
        for d in [x for h in holes[1:2] for x in flat(h)]:
            okd = isinstance(d, MCall) and d.name == 'strftime' and len(d.args) == 1 and \
                is_const(strip(d.args[0]), DATEFMT)
            if isinstance(d, MCall) and d.name == 'strftime' and d.args and \
                    isinstance(strip(d.args[0]), Const):
                writer_fmt = strip(d.args[0]).value
            ctx.ob('R03.3', 'DeletionDate is written with strftime(%s)' % DATEFMT, okd, node=w,
                   message='the DeletionDate value is %s' % short(d, 80))
            # ... of the clock value itself: arithmetic on it (rounding up, an offset,
            # a zone shift by hand) records another instant than the one of trashing
            if isinstance(d, MCall) and d.name == 'strftime':
                shifted = [x for a in flat(d.recv) for x in walk(a)
                           if (isinstance(x, Bin) and x.op in ('+', '-')) or
                           (isinstance(x, Call) and x.fn.endswith('timedelta')) or
                           (isinstance(x, MCall) and x.name in ('astimezone', '__add__',
                                                                '__sub__'))]
                ctx.ob('R03.3', 'the value formatted is the clock reading, not a shifted one',
                       not shifted, node=w,
                       message='the DeletionDate written is %s: the time of trashing moved '
                               'by an offset (an entry trashed at 23:59:59.7 is dated the '
                               'next day/year; list and restore sort and show that date)'
                               % short(d.recv, 120))

    # ---- R03.5 what is recorded for relative candidates: a prefix slice at a boundary
    for w in r.writes:
        for q in [x for x in walk(w.data['roles']['data'])
                  if isinstance(x, Call) and x.fn == 'urllib.parse.quote']:
            bad = []
            for x in walk(q.args[0]):
                if r.is_arg(x):
                    continue
                if isinstance(x, MCall) and r.mentions_arg(x.recv):
                    bad.append(x)
                if isinstance(x, Sub) and r.mentions_arg(x.base):
                    idx = x.index
                    okslice = isinstance(idx, Slice) and idx.upper is None and \
                        idx.step is None and is_call(strip(idx.lower), 'len') and \
                        isinstance(strip(strip(idx.lower).args[0]), Bin) and \
                        strip(strip(idx.lower).args[0]).op == '+'
                    if not okslice and not isinstance(strip(x.base), Call):
                        bad.append(x)
                    elif not okslice:
                        bad.append(x)
            ctx.ob('R03.5', 'the recorded location is the resolved parent, or that with the '
                            'prefix "<topdir>/" sliced off, joined with the base name',
                   not bad, node=w,
                   message='the location written to Path= is computed with %s: not a plain '
                           'prefix slice of the resolved parent (e.g. str.replace removes '
                           'every occurrence of "<topdir>/", not only the leading one)'
                           % short(bad[0], 120) if bad else '')
    for n in b.nodes('assume'):
        c, pol = unwrap_not(n.data['cond'], n.data['pol'])
        for x in walk(c):
            if isinstance(x, MCall) and x.name == 'startswith' and r.mentions_arg(x.recv) \
                    and contains(x.recv, lambda y: isinstance(y, Call) and
                                 y.fn == 'os.path.realpath'):
                arg = strip(x.args[0]) if x.args else None
                okb = isinstance(arg, Bin) and arg.op == '+' and (
                    (isinstance(strip(arg.right), ExtRef) and
                     strip(arg.right).qualname in ('os.sep', 'os.path.sep')) or
                    is_const(strip(arg.right), '/'))
                ctx.ob('R03.5', 'the volume prefix is recognised at a component boundary',
                       okb, node=n,
                       message='the parent is taken to lie below the volume when it merely '
                               'starts with %s (/mnt2/x is not below /mnt)' % short(arg, 60))
    # ---- readers
    n_un = 0
    for cmd in ('list', 'restore', 'rm'):
        for what, node, term in location_uses(ctx, cmd):
            if not unquote_calls(term) and what != 'scope test':
                ctx.ob('R03.1', '%s %s decodes Path with unquote, exactly once' % (cmd, what),
                       False, node=node,
                       message='%s: the %s uses the Path value without percent-decoding it'
                               % (cmd, what))
            for V, P, j in [x for a in flat(term) for x in location_joins(a)]:
                exact = all(is_call(strip(a), *UNQUOTERS) for a in flat(P))
                ctx.ob('R03.1', '%s %s uses the decoded Path as it is' % (cmd, what), exact,
                       node=node,
                       message='%s: the %s post-processes the decoded Path (%s): names with '
                               'leading separators / trailing blanks no longer round-trip'
                               % (cmd, what, short(P, 100)))
            for u in unquote_calls(term):
                n_un += 1
                inner_twice = has_unquote(u.args[0]) if u.args else False
                ok = u.fn == 'urllib.parse.unquote' and not u.kwargs and len(u.args) == 1 \
                    and not inner_twice
                ctx.ob('R03.1', '%s %s decodes Path with unquote, exactly once' % (cmd, what),
                       ok, node=node,
                       message='%s: the %s decodes the Path with %s%s: names containing '
                               '"+" or "%%25" are corrupted' % (
                                   cmd, what, u.fn, ' (twice)' if inner_twice else ''))
                # key / slice agreement
                arg = strip(u.args[0]) if u.args else None
                okk = isinstance(arg, Sub) and isinstance(arg.index, Slice) and \
                    is_const(arg.index.lower, len('Path=')) and arg.index.upper is None
                ctx.ob('R03.4', '%s %s: text after the key "Path=" is decoded' % (cmd, what),
                       okk, node=node,
                       message='%s: the value decoded is %s, not line[len("Path="):]'
                               % (cmd, short(arg, 80)))
                if okk:
                    line_ids = alt_ids(arg.base)
                    keyed = False
                    for gd in b_guards(ctx, cmd, node, u):
                        keyed = keyed or gd
                    ctx.ob('R03.4', '%s %s: the decoded line starts with "Path="'
                           % (cmd, what), keyed, node=node,
                           message='%s: the line sliced is not guarded by '
                                   'startswith("Path=")' % cmd)
    ctx.require(n_un, 'C03: no reader decodes a Path (anchor vanished)')
    for cmd in ('list', 'restore', 'rm', 'empty'):
        bb = ctx.graph(cmd)
        seen = set()
        for n in bb.nodes('mcall'):
            if n.data['name'] in ('read', 'readline', 'readlines') and contains(
                    n.data['recv'], lambda x: isinstance(x, Call) and x.fn in ('open', 'io.open')):
                key = (n.func, n.src)
                if key in seen:
                    continue
                seen.add(key)
                ctx.ob('R03.4', '%s reads the whole .trashinfo' % cmd,
                       n.data['name'] == 'read' and not n.data['args'] and not n.data['kwargs'],
                       node=n, message='%s reads a .trashinfo with %s: a long (percent-escaped) '
                                       'Path is cut and the DeletionDate line lost'
                                       % (cmd, n.src))
    for cmd in ('list', 'restore', 'empty'):
        for what, node, term in date_uses(ctx, cmd):
            for sp in strptime_calls(term):
                fm = strip(sp.args[1]) if len(sp.args) > 1 else None
                ok = isinstance(fm, Const) and fm.value == 'DeletionDate=' + DATEFMT and \
                    (writer_fmt is None or fm.value == 'DeletionDate=' + writer_fmt)
                if isinstance(fm, Const) and fm.value == DATEFMT and \
                        contains(sp.args[0], lambda x: is_const(x, 'TRASH_DATE')):
                    ok = True      # the clock override, same format literal
                ctx.ob('R03.3', '%s %s parses the date with the writer\'s format' % (cmd, what),
                       ok, node=node,
                       message='%s: the %s is parsed with %s, the writer uses %r'
                               % (cmd, what, short(fm), writer_fmt))
    first_match_rules(ctx)


def b_guards(ctx, cmd, node, u):
    """Is the line sliced by the unquote call tested with startswith('Path=')?"""
    b = ctx.graph(cmd)
    arg = strip(u.args[0])
    line_ids = alt_ids(arg.base)
    res = []
    for n in b.nodes('assume'):
        c, pol = unwrap_not(n.data['cond'], n.data['pol'])
        if isinstance(c, MCall) and c.name == 'startswith' and pol and c.args and \
                is_const(strip(c.args[0]), 'Path=') and alt_ids(c.recv) == line_ids:
            res.append(True)
    return res or [False]


def first_match_rules(ctx, rule='R03.3'):
    """First Path= line and first DeletionDate= line win: in every reader graph, the
    decoding call (unquote / strptime) whose result is *used* (printed, matched, compared,
    sorted, restored to) sits in a loop over the lines of the file; once it has run for
    one line it cannot run for a later line of the same file -- the loop is left (return
    / break), or a flag that the match sets on the way guards the call."""
    found = {'Path': 0, 'DeletionDate': 0}
    for cmd in ('list', 'restore', 'rm', 'empty'):
        b = ctx.graph(cmd)
        g = b.g
        used = {'Path': set(), 'DeletionDate': set()}
        if cmd != 'empty':
            for what, n, t in location_uses(ctx, cmd):
                used['Path'] |= set(x.node for x in unquote_calls_all(t))
        if cmd != 'rm':
            for what, n, t in date_uses(ctx, cmd):
                used['DeletionDate'] |= set(x.node for x in strptime_calls_all(t))
        seen = set()
        for u in b.nodes('ext'):
            fn, res = u.data.get('fn'), u.data.get('result')
            if res is None:
                continue
            kind = 'Path' if fn in UNQUOTERS else ('DeletionDate' if fn in STRPTIME else None)
            if kind is None or u.id not in used[kind]:
                continue
            loops = [d for d in g.dominators(u.id) if d != u.id and g.n(d).kind == 'loop'
                     and g.n(d).data.get('iter') is not None and
                     reads_info(g.n(d).data['iter'])]
            if not loops:
                continue          # not a line scanner (e.g. the clock override)
            head = loops[0]       # innermost
            key = (u.func, kind, (u.src or ''))
            if key in seen:
                continue
            seen.add(key)
            found[kind] += 1
            again = matches_again(b, u, head)
            ctx.ob(rule, 'first "%s=" line wins in %s' % (kind, u.func), not again, node=u,
                   message='%s keeps decoding after the first %s= line: a later duplicate '
                           'key overrides the first one (the writer and the other readers '
                           'take the first)' % (u.func, kind))
    if not (found['Path'] and found['DeletionDate']):
        ctx.ob(rule, 'the readers scan the lines for Path= / DeletionDate=', False,
               construct='trashcli.parse_trashinfo', text='reader loops',
               message='no loop over the lines of a .trashinfo decodes a used Path= / '
                       'DeletionDate= value (found %s): the readers were restructured and '
                       'first-line semantics cannot be established' % found)


def unquote_calls_all(t):
    return [x for x in walk(t) if isinstance(x, Call) and x.fn in UNQUOTERS]


def strptime_calls_all(t):
    return [x for x in walk(t) if isinstance(x, Call) and x.fn in STRPTIME]


def matches_again(b, u, head):
    """The decoding call u can run for two different lines of one file."""
    g = b.g
    outer = [d for d in g.dominators(head) if d != head and g.n(d).kind == 'loop']
    succ = [t for t, l in g.succ[u.id]]
    if u.id not in g.reachable_from(succ, blocked=outer):
        return False
    # flag idiom: "if not seen and <match>: seen = True; <decode>"
    in_loop = lambda n: g.dominates(head, n.id)
    assigns = {}
    for n in b.nodes('assign'):
        if in_loop(n) and n.data.get('aug') is None:
            assigns.setdefault(n.data['target'], []).append(n)
    latched = set()
    for f, sites in assigns.items():
        if not all(is_const(strip(n.data['value']), True) for n in sites):
            continue              # the flag is also reset inside the loop
        ids = [n.id for n in sites]
        # the match sets the flag: before the call, or on every way to the next line
        if any(g.dominates(i, u.id) for i in ids) or \
                head not in g.reachable_from(succ, blocked=set(outer) | set(ids)):
            latched.add(f)
    # a second run of u would have to pass the test "flag is false" again
    for n in b.nodes('assume'):
        if in_loop(n) and flag_false_test(n, latched) and g.dominates(n.id, u.id):
            return False
    return True


def flag_false_test(n, flags):
    c, pol = unwrap_not(n.data['cond'], n.data['pol'])
    names = set(x.name for x in flat(c) if isinstance(x, LoopVar))
    others = [x for x in flat(c) if not isinstance(x, LoopVar) and not is_const(x, False)]
    return bool(names) and names <= flags and not others and not pol
