"""C18 -- trash-put acts on the named entry itself, never follows a final symlink."""
from .common import *  # noqa
from .putroles import PutRoles
from .. import prims

EXPLANATION = (
    'Provenance analysis on the trash-put graph: (R18.1) "does the argument exist" is a '
    'no-follow probe of the argument; (R18.2) os.path.realpath / readlink is never applied '
    'to a term in which the argument occurs outside a dirname(...) -- only the parent is '
    'resolved; (R18.3) the MOVE source passes a trailing-separator stripper and no '
    'link-resolving function, so "link/" names the link; (R18.4) the recorded location is '
    'join(<resolved parent>, basename(normpath(ARG))), the parent resolved by realpath in '
    'every alternative; (R18.5) trash-restore brings the '
    'payload back with a MOVE primitive (no dereferencing copy).  Decides which path terms '
    'reach which primitive; rename/shutil.move treatment of links is A1/A2.')
ASSUMPTIONS = ['A1 rename(2) moves a symlink itself', 'A2 shutil.move recreates links']
MINIMUM = {'R18.1': 1, 'R18.2': 2, 'R18.3': 1, 'R18.4': 1, 'R18.5': 1, 'R18.6': 1}


# rules of sibling properties that are necessary conditions of this one too
# (evaluated by the sibling module on the same graphs, reported under this property)
ALSO = {'C07': {'R07.4': "the link's volume is that of its parent directory (normalised before "
                  'dirname)'}}

def arg_only_under_dirname(t, is_arg):
    if is_arg(t):
        return False
    if isinstance(t, Call) and t.fn in DIRNAME:
        return True
    return all(arg_only_under_dirname(k, is_arg) for k in children(t))


def check(ctx):
    r = PutRoles(ctx)
    b, g = r.b, r.g
    ctx.require(r.muts, 'C18: no effects in put graph')
    # R18.1
    first = r.muts
    ok_all = True
    probes = set()
    def present(c2, pol2, nofollow):
        pn = probe_result_of(c2)
        if pn is None or not pol2:
            return False
        pd = g.n(pn).data
        if pd['role'] == 'presence' and alt_ids(pd['args'][0]) == r.arg_ids:
            probes.add(pn)
            return (not pd['follow']) if nofollow else True
        return False
    for e in first:
        # (a dominating guard, or the verdict of a pre-check helper: every consistent path)
        okp = established(b, e.id, lambda c2, p2: present(c2, p2, True),
                          start=r.arg_iteration)
        if not okp:
            established(b, e.id, lambda c2, p2: present(c2, p2, False),
                        start=r.arg_iteration)      # (collects the probes for the report)
        ok_all = ok_all and okp
    pn = g.n(sorted(probes)[0]) if probes else r.muts[0]
    ctx.ob('R18.1', 'presence of the argument is decided without following links', ok_all,
           node=pn, message='the existence test of the argument follows symlinks: a dangling '
                            'link is reported as nonexistent, a link to a directory is judged '
                            'by its target')
    # an argument is treated as "not there" (skipped silently under -f, or reported as
    # nonexistent) only on the word of a no-follow probe
    region = r.body_nodes()
    for n in b.nodes('return'):
        if n.id not in region:
            continue
        vals = flat(n.data.get('value')) if n.data.get('value') is not None else []
        if not vals or not all(isinstance(v, EnumVal) and v.name in ('Success', 'Failure')
                               for v in vals):
            continue          # only verdicts about the argument, not descriptions of it
        for c, pol, a in guards(b, n.id):
            if a.id not in region:
                continue
            c2, p2 = unwrap_not(c, pol)
            for x in flat(c2):
                pn = probe_result_of(x)
                if pn is None or p2:
                    continue
                pd = g.n(pn).data
                if pd['role'] == 'presence' and pd['args'] and \
                        alt_ids(pd['args'][0]) == r.arg_ids and pd['follow'] and \
                        not any(e.id for e in r.muts if g.dominates(e.id, n.id)):
                    ctx.ob('R18.1', 'an argument is judged absent only by a no-follow probe',
                           False, node=g.n(pn),
                           message='%s (follows symlinks) decides that the argument is not '
                                   'there: under -f a dangling symlink is silently left in '
                                   'place and exit status is 0' % pd['prim'])
    # R18.2
    for p in b.probes():
        if p.data['prim'] not in prims.LINK_RESOLVERS:
            continue
        arg = p.data['args'][0] if p.data['args'] else None
        if arg is None or not r.mentions_arg(arg):
            ctx.ob('R18.2', 'resolver applied to a term without the argument', True, node=p)
            continue
        ctx.ob('R18.2', 'only the parent of the argument is resolved',
               arg_only_under_dirname(arg, r.is_arg), node=p,
               message='%s is applied to the argument itself (%s): a symlink argument is '
                       'replaced by its target' % (p.data['prim'], short(arg, 80)))
    # R18.3
    for m in r.moves:
        src = m.data['roles']['src']
        chain = transformer_chain(src, r.is_arg) or set()
        strips = bool(chain & {'os.path.normpath', 'posixpath.normpath'}) or \
            'method:rstrip' in chain
        resolves = bool(chain & prims.LINK_RESOLVERS)
        ctx.ob('R18.3', 'MOVE source strips trailing separators and resolves nothing',
               strips and not resolves, node=m,
               message='the moved path %s %s' % (short(src, 80),
                                                 'is resolved through a symlink' if resolves
                                                 else 'keeps trailing slashes: "link/" '
                                                      'moves the directory behind the link'))
    # R18.6 the argument is never copied by trash-cli itself (a copy dereferences or
    # re-creates links on its own terms); shutil.move is the only cross-device transfer
    copies = [e for e in r.muts if e.data['kind'] in ('COPY', 'LINK', 'OPEN_WRITE')]
    for e in copies:
        ctx.ob('R18.6', 'trash-put does not copy the argument itself', False, node=e,
               message='%s is applied on the put path (%s): a link argument is dereferenced or '
                       'chosen by a link-following test instead of being moved as a link'
                       % (e.data['prim'], short(path_role(e), 60)))
    if not copies:
        ctx.ob('R18.6', 'trash-put does not copy the argument itself', True, node=r.muts[0])
    # R18.4 recorded location
    quotes = []
    for w in r.writes:
        for x in walk(w.data['roles']['data']):
            if isinstance(x, Call) and x.fn == 'urllib.parse.quote':
                quotes.append((w, x))
    ctx.require(quotes or not r.writes, 'R18.4: no quoted Path in the written content')
    for w, q in quotes:
        loc = q.args[0]
        ok = True
        why = ''
        for a in flat(loc):
            parts = join_parts(a)
            if parts is None or len(parts) < 2:
                ok, why = False, 'not join(parent, basename)'
                break
            base = strip(parts[-1])
            ch = transformer_chain(base, r.is_arg)
            if not (is_call(base, *BASENAME) and ch is not None and
                    ch <= {'os.path.basename', 'os.path.normpath'} and
                    'os.path.normpath' in ch):
                ok, why = False, 'last component is %s' % short(base, 60)
                break
            for par in parts[:-1]:
                if r.mentions_arg(par) and not arg_only_under_dirname(par, r.is_arg):
                    ok, why = False, 'parent part resolves the argument itself'
                # the parent is the *resolved* directory, in every alternative (the entry
                # is brought back to where it was however the links on the way change)
                for pa in flat(par):
                    if r.mentions_arg(pa) and not contains(pa, lambda x: is_call(
                            x, 'os.path.realpath') and r.mentions_arg(x)):
                        ok, why = False, 'parent %s is not resolved' % short(pa, 60)
        ctx.ob('R18.4', 'recorded location = join(resolved parent, basename(normpath(ARG)))',
               ok, node=w, message='the Path written to the .trashinfo is %s (%s)'
                                   % (short(loc, 100), why))
    # R18.5
    rb = ctx.graph('restore')
    rm = [e for e in mutating_effects(rb) if e.data['kind'] not in ('CREATE_DIR', 'DELETE')]
    for e in rm:
        ctx.ob('R18.5', 'restore brings the payload back with a MOVE primitive',
               e.data['kind'] == 'MOVE', node=e,
               message='trash-restore uses %s (%s): a trashed symlink would be dereferenced'
                       % (e.data['kind'], e.data['prim']))
    ctx.require(rm, 'R18.5: restore has no MOVE')
    # probes of a trashed payload never follow it (a trashed link is an entry in its own
    # right: relative and dangling links do not resolve from inside files/)
    from .c15 import classify
    for cmd in ('restore', 'rm', 'empty'):
        bb = ctx.graph(cmd)
        for p in bb.probes():
            if not p.data['args'] or p.data['role'] not in ('presence', 'isdir', 'isfile',
                                                            'stat'):
                continue
            kinds, infos = classify(p.data['args'][0])
            if kinds != {'payload'}:
                continue
            # isdir/stat used for display (size) are not decisions about presence
            if p.data['role'] == 'stat':
                continue
            ctx.ob('R18.5', '%s: a test on a trashed payload does not follow symlinks' % cmd,
                   not p.data['follow'], node=p,
                   message='%s decides about a trashed payload with %s, which follows '
                           'symlinks: a trashed relative or dangling link "does not exist" '
                           'and is not restored / removed' % (cmd, p.data['prim']))
