"""Fire / silent matrix for the checker's self-test (DESIGN §7).

Each entry edits a scratch copy of the tree under analysis.  'fire' entries
break a property and name, per property, the rule(s) of which at least one must
newly report; 'silent' entries are behaviour-preserving and must not change any
verdict.  Entries whose anchor text no longer occurs exactly once are reported
as stale and skipped (the tree under analysis may carry other edits).
"""
MUTANTS = []


def F(id, fire, edits, what=''):
    MUTANTS.append({'id': id, 'kind': 'fire', 'props': sorted(fire), 'fire': fire,
                    'edits': edits, 'what': what})


def S(id, props, edits, what=''):
    MUTANTS.append({'id': id, 'kind': 'silent', 'props': sorted(props), 'fire': {},
                    'edits': edits, 'what': what})


RM_CAN = 'trashcli/rm/cleanable_trashcan.py'
EMPTIER = 'trashcli/empty/emptier.py'
RESTORER = 'trashcli/restore/restorer.py'
FS = 'trashcli/fs.py'

# ------------------------------------------------------------------ C15
F('c15-rm-swap', {'C15': ['R15.3']}, [(RM_CAN,
  """        self._file_remover.remove_file_if_exists(backup_copy)
        self._file_remover.remove_file2(trash_info_path)""",
  """        self._file_remover.remove_file2(trash_info_path)
        self._file_remover.remove_file_if_exists(backup_copy)""")],
  'trash-rm removes the .trashinfo before the payload')
F('c15-empty-yield-info-first', {'C15': ['R15.2']}, [(EMPTIER,
  """                    yield (path_of_backup_copy(trash_info_path))
                    yield trash_info_path""",
  """                    yield trash_info_path
                    yield (path_of_backup_copy(trash_info_path))""")],
  'trash-empty yields the .trashinfo before the payload')
F('c15-restore-remove-first', {'C15': ['R15.1']}, [(RESTORER,
  """        self.write_fs.move(trashed_file.original_file, trashed_file.original_location)
        self.write_fs.remove_file(trashed_file.info_file)""",
  """        self.write_fs.remove_file(trashed_file.info_file)
        self.write_fs.move(trashed_file.original_file, trashed_file.original_location)""")],
  'trash-restore removes the .trashinfo before moving the payload out')
F('c15-restore-remove-in-finally', {'C15': ['R15.1']}, [(RESTORER,
  """        self.write_fs.move(trashed_file.original_file, trashed_file.original_location)
        self.write_fs.remove_file(trashed_file.info_file)""",
  """        try:
            self.write_fs.move(trashed_file.original_file, trashed_file.original_location)
        finally:
            self.write_fs.remove_file(trashed_file.info_file)""")],
  'trash-restore removes the .trashinfo even when the move failed')
F('c15-rm-not-tolerant', {'C15': ['R15.4']}, [(RM_CAN,
  "self._file_remover.remove_file_if_exists(backup_copy)",
  "self._file_remover.remove_file2(backup_copy)")],
  'trash-rm payload removal raises when the payload is already gone (re-run cannot complete)')
F('c15-empty-no-orphans', {'C15': ['R15.4']}, [(EMPTIER,
  """            for orphan in self.trash_dir_reader.list_orphans(
                    trash_dir.path):
                yield orphan
""", "")],
  'trash-empty no longer purges payloads without .trashinfo')
F('c15-empty-sorted-consumer', {'C15': ['R15.2']}, [(EMPTIER,
  "for path in self.files_to_delete(trash_dirs, environ, parsed_days):",
  "for path in sorted(self.files_to_delete(trash_dirs, environ, parsed_days), reverse=True):")],
  'trash-empty collects and reorders the paths to delete (info may precede payload)')
S('c15-rm-helper-extraction', ['C15', 'C11', 'C12'], [(RM_CAN,
  """        backup_copy = path_of_backup_copy(trash_info_path)
        self._file_remover.remove_file_if_exists(backup_copy)
        self._file_remover.remove_file2(trash_info_path)""",
  """        self._drop_payload(trash_info_path)
        self._drop_info(trash_info_path)

    def _drop_payload(self, info):
        payload = path_of_backup_copy(info)
        self._file_remover.remove_file_if_exists(payload)

    def _drop_info(self, info):
        self._file_remover.remove_file2(info)""")],
  'helper extraction in CleanableTrashcan')
S('c15-remove-unlink', ['C15', 'C11'], [(FS,
  """class RealRemoveFile2(RemoveFile2):
    def remove_file2(self, path):
        try:
            os.remove(path)""",
  """class RealRemoveFile2(RemoveFile2):
    def remove_file2(self, path):
        try:
            os.unlink(path)""")],
  'os.unlink instead of os.remove')

# ------------------------------------------------------------------ C11
F('c11-isdir-rmtree', {'C11': ['R11.1']}, [(FS,
  """    def remove_file2(self, path):
        try:
            os.remove(path)
        except OSError:
            shutil.rmtree(path)""",
  """    def remove_file2(self, path):
        if os.path.isdir(path):
            shutil.rmtree(path)
        else:
            os.remove(path)""")],
  'remover refactored to "if isdir: rmtree else: remove" (isdir follows a trashed symlink to a directory)')
F('c11-rm-deletes-original-location', {'C11': ['R11.2']}, [('trashcli/rm/rm_cmd.py',
  """                            trashcan.delete_trash_info_and_backup_copy(
                                info_file)""",
  """                            trashcan.delete_trash_info_and_backup_copy(
                                info_file)
                            FileRemover().remove_file_if_exists(original_location)""")],
  'trash-rm also deletes the original location')
F('c11-realpath-payload', {'C11': ['R11.2', 'R11.4']}, [(RM_CAN,
  "backup_copy = path_of_backup_copy(trash_info_path)",
  "import os\n        backup_copy = os.path.realpath(path_of_backup_copy(trash_info_path))")],
  'payload path resolved with realpath before deletion (follows a trashed symlink)')
F('c11-empty-moves', {'C11': ['R11.3']}, [(EMPTIER,
  "                    self.file_remover.remove_file_if_exists(path)",
  "                    import shutil\n                    shutil.move(path, path + '.old')\n                    self.file_remover.remove_file_if_exists(path + '.old')")],
  'trash-empty renames entries before deleting them')
F('c11-rmtree-first', {'C11': ['R11.1']}, [(FS,
  """    def remove_file2(self, path):
        try:
            os.remove(path)
        except OSError:
            shutil.rmtree(path)""",
  """    def remove_file2(self, path):
        try:
            shutil.rmtree(path)
        except OSError:
            os.remove(path)""")],
  'rmtree attempted first')
S('c11-remover-renamed', ['C11', 'C15', 'C14'], [(FS,
  "class RealRemoveFileIfExists(RemoveFileIfExists, RemoveFile2):\n    def remove_file_if_exists(self, path):\n        if os.path.lexists(path): self.remove_file2(path)",
  "class RealRemoveFileIfExists(RemoveFileIfExists, RemoveFile2):\n    def remove_file_if_exists(self, path):\n        present = os.path.lexists(path)\n        if not present:\n            return\n        self.remove_file2(path)")],
  'early-return form of the existence guard')

# ------------------------------------------------------------------ C14
GUARD = 'trashcli/empty/guard.py'
EPARSER = 'trashcli/empty/parser.py'
F('c14-remove-in-both-branches', {'C14': ['R14.1']}, [(EMPTIER,
  "                self.console.print_dry_run(path)\n",
  "                self.console.print_dry_run(path)\n                self.file_remover.remove_file_if_exists(path)\n")],
  'dry run also removes')
F('c14-predicate-not-n', {'C14': ['R14.3']}, [('trashcli/empty/parse_reply.py',
  "return reply[0:1].lower() == 'y'", "return reply[0:1].lower() != 'n'")],
  'anything but n counts as consent (empty reply, EOF text)')
F('c14-eof-default-yes', {'C14': ['R14.4', 'R14.3']}, [('trashcli/empty/user.py',
  "        reply = self.input.read_input(self.prepare_output_message(trash_dirs))\n",
  "        try:\n            reply = self.input.read_input(self.prepare_output_message(trash_dirs))\n        except EOFError:\n            reply = 'y'\n")],
  'end of input treated as yes')
F('c14-interactive-ignored', {'C14': ['R14.3']}, [(GUARD,
  "        list_result = trash_dirs_list if ok_to_empty else []\n        return UserIntention(ok_to_empty=ok_to_empty,",
  "        list_result = trash_dirs_list\n        return UserIntention(ok_to_empty=True,")],
  'answer is read but ignored')
F('c14-dryrun-default-swapped', {'C14': ['R14.5']}, [(EPARSER,
  "                            action='store_true',\n                            help='show which files would have been removed',",
  "                            action='store_false',\n                            help='show which files would have been removed',")],
  '--dry-run becomes store_false')
F('c14-dry-run-prints-other', {'C14': ['R14.2']}, [(EMPTIER,
  "                self.console.print_dry_run(path)\n",
  "                self.console.print_dry_run(path_of_backup_copy(path))\n")],
  'dry run prints a different path than the one removed')
F('c14-f-sets-interactive', {'C14': ['R14.5']}, [(EPARSER,
  "                            action='store_false',\n                            help='don\\'t ask before emptying trash directories',",
  "                            action='store_true',\n                            help='don\\'t ask before emptying trash directories',")],
  '-f no longer clears interactive')
S('c14-guard-inverted', ['C14', 'C15', 'C11'], [(EMPTIER,
  """            if dry_run:
                self.console.print_dry_run(path)
            else:
                if verbose:
                    self.console.print_removing(path)
                try:
                    self.file_remover.remove_file_if_exists(path)
                except OSError:
                    self.console.print_cannot_remove_error(path)""",
  """            if not dry_run:
                if verbose:
                    self.console.print_removing(path)
                try:
                    self.file_remover.remove_file_if_exists(path)
                except OSError:
                    self.console.print_cannot_remove_error(path)
            else:
                self.console.print_dry_run(path)""")],
  'guard inverted')
S('c14-predicate-startswith', ['C14'], [('trashcli/empty/parse_reply.py',
  "return reply[0:1].lower() == 'y'", "return reply.lower().startswith('y')")],
  'equivalent reply predicate')
