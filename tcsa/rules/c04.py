"""C04 -- a trashed entry is never overwritten; names stay unique (also concurrently)."""
from .common import *  # noqa
from .putroles import PutRoles, os_flags, precedes

EXPLANATION = (
    'Structural necessary conditions of name uniqueness on the trash-put graph: (R04.1) '
    'the only content-writing primitive is os.open with flags folding to a superset of '
    'O_CREAT|O_EXCL without O_TRUNC, followed by WRITE/CLOSE on the same descriptor; no '
    'open(..., "w") is reachable; (R04.2) the MOVE destination is pbc() of the path whose '
    'exclusive creation dominates it; (R04.3) the creation is dominated by a negative, '
    'no-follow presence probe of that destination (a dangling symlink occupies a name); '
    '(R04.4) every mkdir is race tolerant (exist_ok or "except OSError: if not isdir: '
    'raise"); (R04.5) every retry cycle passes an increment of the variable feeding the '
    'suffix.  Decides which primitives decide the winner of a name; does not explore real '
    'interleavings of processes nor rename(2) onto an existing name.')
ASSUMPTIONS = ['A1 O_CREAT|O_EXCL is exclusive (also on NFSv3+)',
               'A4 no concurrent modification between the probe and the rename (TOCTOU is '
               'outside the decided part)']
MINIMUM = {'R04.1': 2, 'R04.2': 1, 'R04.3': 1, 'R04.4': 1, 'R04.5': 1, 'R04.6': 1}


# rules of sibling properties that are necessary conditions of this one too
# (evaluated by the sibling module on the same graphs, reported under this property)
ALSO = {'C01': {'R01.6': 'closed effect set of trash-put'},
 'C17': {'R17.5': 'a failing attempt deletes nothing but its own reservation (not directories '
                  'another trash-put is using)'}}

def check(ctx):
    r = PutRoles(ctx)
    b, g = r.b, r.g
    ctx.require(r.muts, 'trash-put has no mutating effect at all (anchor vanished)')
    if not r.opens:
        ctx.ob('R04.1', 'the .trashinfo is created through os.open', False, node=r.muts[0],
               construct='trashcli.put.main.main', text='no os.open',
               message='no os.open-style exclusive creation of the .trashinfo is reachable '
                       'from trash-put (content is written by %s)'
                       % sorted(set(e.data['prim'] for e in r.muts)))
    if not r.moves:
        ctx.ob('R04.1', 'the payload is moved by a MOVE primitive', False, node=r.muts[-1],
               construct='trashcli.put.main.main', text='no MOVE',
               message='no MOVE primitive is reachable from trash-put')
    # ---- R04.1
    for o in r.opens:
        fl = os_flags(o.data['roles'].get('flags'))
        ok = fl is not None and {'O_CREAT', 'O_EXCL'} <= fl and 'O_TRUNC' not in fl and \
            ('O_WRONLY' in fl or 'O_RDWR' in fl)
        ctx.ob('R04.1', 'the .trashinfo is created with O_CREAT|O_EXCL (no O_TRUNC)', ok,
               node=o, message='the .trashinfo is opened with flags %s: creation is not '
                               'exclusive, two writers can win the same name'
                               % (sorted(fl) if fl is not None else
                                  short(o.data['roles'].get('flags'))))
    writers = [e for e in r.muts if e.data['kind'] in ('OPEN_WRITE', 'COPY', 'LINK',
                                                        'CREATE_TMP', 'TRUNCATE')]
    ctx.ob('R04.1', 'no other content-writing primitive is reachable from trash-put',
           not writers, node=writers[0] if writers else None,
           construct=None if writers else 'trashcli.put.main.main', text='',
           message='trash-put writes files through %s, which does not create exclusively'
                   % (writers[0].data['prim'] if writers else ''))
    # ---- R04.2 / R04.3
    for m in r.moves:
        dst = m.data['roles']['dst']
        infos = [match_pbc(a) for a in flat(dst)]
        if not all(i is not None for i in infos):
            ctx.ob('R04.2', 'MOVE destination is pbc(winning info)', False, node=m,
                   message='payload destination %s is not derived from the .trashinfo name '
                           'that was won' % short(dst, 100))
            continue
        ids = frozenset(cid(i) for i in infos)
        owners = [o for o in r.opens if alt_ids(r.info_of(o)) == ids and
                  precedes(b, r, o.id, m.id)]
        ctx.ob('R04.2', 'MOVE destination is pbc() of the exclusively created info', bool(owners),
               node=m, message='the payload is moved to a name whose .trashinfo was not '
                               'created exclusively on this path')
    for o in r.opens:
        info_ids = alt_ids(r.info_of(o))
        probes = []
        for c, pol, n in guards(b, o.id):
            c2, pol2 = unwrap_not(c, pol)
            pn = probe_result_of(c2)
            if pn is None or pol2:
                continue
            pd = g.n(pn).data
            if pd['role'] != 'presence':
                continue
            targets = [match_pbc(a) for a in flat(pd['args'][0])]
            if all(t is not None for t in targets) and \
                    frozenset(cid(t) for t in targets) == info_ids:
                probes.append(g.n(pn))
        ctx.ob('R04.3', 'creation of a name is dominated by "its payload name is free"',
               bool(probes), node=o,
               message='a name is reserved without checking that files/<name> is free: a '
                       'payload without .trashinfo would be overwritten or merged into')
        for p in probes:
            ctx.ob('R04.3', 'the taken-name probe does not follow symlinks',
                   not p.data['follow'], node=p,
                   message='%s follows symlinks: a dangling symlink left in files/ makes the '
                           'name look free and is then replaced by the move'
                           % p.data['prim'])
    # ---- R04.6 a name is released only by the process that reserved it
    for o in r.opens:
        info_ids = alt_ids(r.info_of(o))
        rels = [d for d in r.deletes if alt_ids(d.data['roles']['path']) == info_ids]
        exc = exc_successors(b, o.id)
        for d in rels:
            stolen = bool(exc) and bool(reachable_c(b, exc, [d.id], blocked=[o.id]))
            ctx.ob('R04.6', 'the .trashinfo is deleted only after its exclusive creation '
                            'succeeded in this process', not stolen, node=d,
                   message='when the exclusive creation fails (EEXIST: another trash-put owns '
                           'the name) the .trashinfo is deleted all the same: the other '
                           'process loses its reservation and its payload becomes an orphan')
        if not rels:
            ctx.ob('R04.6', 'no release of the reservation in this graph', True, node=o)
    # ---- R04.4
    for e in r.mkdirs:
        ctx.ob('R04.4', 'mkdir tolerates concurrent creation', mkdir_tolerant(b, e), node=e,
               message='check-then-create: two concurrent trash-put runs creating the trash '
                       'directory make one of them fail')
    # ---- R04.5
    for o in r.opens:
        info = r.info_of(o)
        names = set(x.name for x in walk(info) if isinstance(x, LoopVar))
        # ... or the index is the element of an endless counter: each pass of the loop
        # head is the increment
        counters = [x for x in walk(info) if isinstance(x, Elem) and
                    is_call(strip(x.container), 'itertools.count')]
        incs = [n.id for n in b.nodes('assign')
                if n.data.get('aug') == '+' and n.data['target'] in names]
        # ... or the index lives in an object: an augmented store whose new value is one
        # of the values the name is computed from
        fields = [n for n in b.nodes('assign') if n.data.get('aug') == '+' and
                  '.' in n.data['target'] and
                  (contains(info, lambda x, _v=cid(n.data['value']): cid(x) == _v) or
                   any(nm.endswith('.' + n.data['target'].split('.')[-1]) for nm in names))]
        incs += [n.id for n in fields]
        outer = [d for d in g.dominators(o.id)
                 if g.n(d).kind == 'loop' and g.n(d).data.get('kind') == 'for']
        again = o.id in g.reachable_from([t for t, _ in g.succ[o.id]],
                                         blocked=set(incs) | set(outer))
        ctx.ob('R04.5', 'every retry of the exclusive creation passes an increment of the '
                        'suffix index', bool(names or counters or fields) and not again, node=o,
               message='the creation can be retried with the same name (no increment of the '
                       'index on some retry path)')


def mkdir_tolerant(b, e):
    """Accepted idioms: makedirs(..., exist_ok=True); or "try: makedirs except
    OSError: if not isdir(path): raise" -- the handler re-joins the normal flow
    only under isdir(path) and raises otherwise."""
    g = b.g
    kw = e.data['kwargs']
    if is_const(kw.get('exist_ok'), True):
        return True
    path_ids = alt_ids(e.data['roles']['path'])
    for cls, how, target, soft in e.data.get('raises', []):
        if how != 'caught' or cls not in ('OSError', 'FileExistsError'):
            continue
        normal = g.reachable_from(normal_successors(b, e.id), blocked=[target, e.id])
        yes, no = [], []
        for n in b.nodes('assume'):
            if not g.dominates(target, n.id):
                continue
            c2, pol2 = unwrap_not(n.data['cond'], n.data['pol'])
            pn = probe_result_of(c2)
            if pn is not None and g.n(pn).data['role'] == 'isdir' and \
                    alt_ids(g.n(pn).data['args'][0]) == path_ids:
                (yes if pol2 else no).append(n.id)
        if not yes or not no:
            return False
        raises = [n.id for n in b.nodes('raise')]
        # the "is a directory" branch continues like a successful mkdir ...
        from_yes = g.reachable_from(yes, blocked=raises)
        rejoin = [x for x in from_yes if x in normal and g.n(x).kind in ('join', 'ret')
                  and g.n(x).stack == g.n(target).stack]
        # ... the other branch only raises
        from_no = g.reachable_from(no, blocked=raises)
        leaks = [x for x in from_no if x in normal and g.n(x).kind in ('join', 'ret')
                 and g.n(x).stack == g.n(target).stack]
        # every way out of the handler goes through one of the two tests
        other = g.reachable_from(target, blocked=set(yes) | set(no) | set(raises))
        direct = [x for x in other if x in normal and g.n(x).kind in ('join', 'ret')
                  and g.n(x).stack == g.n(target).stack]
        return bool(rejoin) and not leaks and not direct
    return False
