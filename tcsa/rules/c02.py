"""C02 -- put then restore returns the exact entry to its exact original path."""
from .common import *  # noqa
from .readroles import *  # noqa
from .putroles import PutRoles, candidate_sites
from .c15 import classify

EXPLANATION = (
    'Structural conditions of the round trip: (R02.1) the --sort registry is total over '
    'the Sort enum and onto it from the argparse choices, and every registered sorter can '
    'be called the way its siblings are (no arity error on the dispatch); (R02.2) the '
    'mutating effects of trash-restore are exactly CREATE_DIR(dirname(LOC)) -- or "is '
    'already a directory" -- then MOVE(pbc(I), LOC), then DELETE(I), for one listed '
    'info/*.trashinfo I whose first Path line, unquoted and joined with the volume, is '
    'LOC; (R02.3) put and restore obtain their (trash_dir, volume) pairs from the same '
    'generator functions; (R02.4) the prefix the writer strips for relative paths and the '
    'base the reader joins are the same component of those pairs.  Does not decide '
    'equality of restored content or metadata.')
ASSUMPTIONS = ['A1/A2 as for C01', 'os.path.join keeps an absolute second argument']
MINIMUM = {'R02.1': 3, 'R02.2': 4, 'R02.3': 2, 'R02.4': 2}






# rules of sibling properties that are necessary conditions of this one too
# (evaluated by the sibling module on the same graphs, reported under this property)
ALSO = {'C03': {'R03.1': 'the Path written decodes back to the location (no byte-level quoting the '
                  'readers cannot invert)'},
 'C04': {'R04.1': 'same-named entries of concurrent puts get different names: exclusive '
                  'creation',
         'R04.2': 'the payload goes to the name whose .trashinfo was won'},
 'C10': {'R10.4': 'a freshly trashed payload must not be purged as an orphan before it can be '
                  'restored'},
 'C12': {'R12.2': 'a trash-rm between put and restore removes only what its pattern names '
                  '(basename, or full path for /patterns)',
         'R12.3': 'a trash-rm between put and restore removes only entries its pattern '
                  'matched'},
 'C13': {'R13.2': 'an entry is offered from its original directory or any ancestor (scope at a '
                  'component boundary, nothing else)'}}

def enum_members(ctx, cls):
    return sorted(k for k, v in cls.attrs.items() if not k.startswith('_'))


def trash_dir_generators(b):
    """{generator qualname: [yield nodes]} for generators yielding (path, volume) pairs
    whose path mentions a Trash directory name."""
    out = {}
    for y in b.nodes('yield'):
        v = y.data.get('value')
        for a in flat(v) if v is not None else []:
            if isinstance(a, TupleT) and len(a.items) == 2 and \
                    not any(isinstance(x0, (Obj, ListObj, DictObj)) for x0 in flat(a.items[0])) \
                    and contains(
                    a.items[0], lambda x: (isinstance(x, Fmt) and 'Trash' in x.template) or
                    (isinstance(x, Const) and isinstance(x.value, str) and
                     'Trash' in x.value)):
                out.setdefault(y.data.get('gen'), []).append(y)
    return out


def core_generators(gens, b=None):
    """Drop generators that merely re-yield pairs while iterating another of the
    generators (their yield sits inside a loop, in their own body, over it)."""
    core = {}
    for k, ys in gens.items():
        derived = True
        for y in ys:
            inside = False
            for d in b.g.dominators(y.id):
                dn = b.g.n(d)
                if dn.kind == 'loop' and dn.data.get('kind') == 'generator' and \
                        dn.data.get('gen') in gens and dn.data.get('gen') != k and \
                        dn.func == k:
                    inside = True
            derived = derived and inside
        if not derived:
            core[k] = ys
    return core


def check(ctx):
    b = ctx.graph('restore')
    g = b.g
    # ---- R02.1
    sort_opt = [o for o in argparse_options(b) if '--sort' in o['flags']]
    ctx.require(sort_opt, 'R02.1: --sort option not declared')
    choices = strip(sort_opt[0]['choices'])
    choice_vals = sorted(const_value(x) for x in choices.items) \
        if isinstance(choices, ListObj) else None
    enum_cls = None
    for n in b.nodes('lookup'):
        if 'dict' not in n.data:
            continue
        keys = [strip(k) for k in n.data['keys']]
        vals = [strip(v) for v in n.data['values']]
        if keys and all(isinstance(k, Const) and isinstance(k.value, str) for k in keys) and \
                all(isinstance(v, EnumVal) for v in vals):
            enum_cls = vals[0].cls
            ctx.ob('R02.1', 'argparse choices of --sort equal the keys of the choice map',
                   choice_vals == sorted(k.value for k in keys), node=n,
                   message='--sort accepts %s but the map knows %s'
                           % (choice_vals, sorted(k.value for k in keys)))
            ctx.ob('R02.1', 'the choice map is onto the Sort enum',
                   sorted(v.name for v in vals) == enum_members(ctx, enum_cls), node=n,
                   message='sort modes %s are not all reachable from the command line'
                           % enum_members(ctx, enum_cls))
    for n in b.nodes('lookup'):
        if 'dict' not in n.data:
            continue
        keys = [strip(k) for k in n.data['keys']]
        if keys and all(isinstance(k, EnumVal) for k in keys):
            cls = keys[0].cls
            ctx.ob('R02.1', 'the sorter registry is total over the enum',
                   sorted(k.name for k in keys) == enum_members(ctx, cls), node=n,
                   message='no sorter registered for %s' % sorted(
                       set(enum_members(ctx, cls)) - set(k.name for k in keys)))
            vals = [strip(v) for v in n.data['values']]
            kinds = set(type(v).__name__ for v in vals)
            # all instances (used through a method), or all plain callables (functions,
            # partials, builtins); never a bare class among them
            ctx.ob('R02.1', 'registry values are of one kind (instances)',
                   kinds <= {'Obj'} or not (kinds & {'Obj', 'ClsRef'}), node=n,
                   message='the registry mixes %s: a bare class object cannot be called like '
                           'its sibling instances (TypeError before anything is listed)'
                           % sorted(kinds))
    registry = [n for n in b.nodes('lookup') if 'dict' in n.data and n.data['keys'] and
                all(isinstance(strip(k), EnumVal) for k in n.data['keys'])]
    if not registry and enum_cls is not None:
        # dispatch written as an if/elif chain over the enum: every member is compared
        tested = {}
        for n in b.nodes('assume'):
            c2, p2 = unwrap_not(n.data['cond'], n.data['pol'])
            if isinstance(c2, Cmp) and c2.op in ('==', 'is') and p2:
                for side in (c2.left, c2.right):
                    for a in flat(side):
                        if isinstance(a, EnumVal) and a.cls is enum_cls:
                            tested.setdefault(a.name, n)
        ctx.ob('R02.1', 'the sorter dispatch is total over the enum',
               sorted(tested) == enum_members(ctx, enum_cls),
               node=list(tested.values())[0] if tested else None,
               construct='sort dispatch', text=str(sorted(tested)),
               message='no sorter selected for %s' % sorted(
                   set(enum_members(ctx, enum_cls)) - set(tested)))
        for name, n in sorted(tested.items()):
            ctx.ob('R02.1', 'sort mode %s has a branch' % name, True, node=n)
    for n in b.nodes('arity-error', 'type-error'):
        ctx.ob('R02.1', 'every call on the restore path fits the callee\'s signature', False,
               node=n, message='%s: %s' % (n.kind, n.data.get('what') or
                                           'call of %s with %d positional argument(s) does not '
                                           'fit its signature' % (n.data.get('func'),
                                                                  n.data.get('nargs', 0))))
    # ---- R02.2
    muts = mutating_effects(b)
    for e in muts:
        ctx.ob('R02.2', 'restore only creates directories, moves and deletes',
               e.data['kind'] in ('CREATE_DIR', 'MOVE', 'DELETE'), node=e,
               message='trash-restore performs %s (%s)' % (e.data['kind'], e.data['prim']))
    moves = [e for e in muts if e.data['kind'] == 'MOVE']
    ctx.require(moves, 'R02.2: no MOVE in restore')
    for m in moves:
        kinds, infos = classify(m.data['roles']['src'])
        loc = m.data['roles']['dst']
        ctx.ob('R02.2', 'MOVE source is pbc(listed info)', kinds == {'payload'}, node=m)
        # LOC read from that very info
        opened = set()
        for y in walk(loc):
            if isinstance(y, Call) and y.fn in ('open', 'io.open') and y.args:
                opened |= alt_ids(y.args[0])
        lj = [j for a in flat(loc) for j in location_joins(a) if same(j[2], a)]
        exact = all(is_call(strip(x), *UNQUOTERS) for V, P, j in lj for x in flat(P))
        ctx.ob('R02.2', 'LOC = join(volume, unquote(Path of the same .trashinfo))',
               bool(lj) and len(lj) == len(flat(loc)) and opened == infos and exact, node=m,
               message='the destination %s is not the location recorded in the .trashinfo '
                       'whose payload is moved' % short(loc, 120))
        dels = [d for d in muts if d.data['kind'] == 'DELETE']
        ctx.ob('R02.2', 'DELETE removes the .trashinfo of the moved payload',
               bool(dels) and all(classify(d.data['roles']['path']) == ({'info'}, infos)
                                  for d in dels), node=m,
               message='after the move restore deletes something else than that entry\'s '
                       '.trashinfo')
        mk = [e for e in muts if e.data['kind'] == 'CREATE_DIR']
        def parent_of_loc(t):
            # dirname(X) on every alternative, the X's together being LOC
            fl = flat(t)
            if not fl or not all(is_call(a, *DIRNAME) and
                                 alt_ids(a.args[0]) <= alt_ids(loc) for a in fl):
                return False
            got = set()
            for a in fl:
                got |= alt_ids(a.args[0])
            return got == alt_ids(loc)
        stop = [e.id for e in mk if parent_of_loc(e.data['roles']['path'])]
        for n in b.nodes('assume'):
            c, pol = unwrap_not(n.data['cond'], n.data['pol'])
            pn = probe_result_of(c)
            if pn is not None and pol and g.n(pn).data['role'] == 'isdir':
                arg = g.n(pn).data['args'][0]
                if parent_of_loc(arg):
                    stop.append(n.id)
        ctx.ob('R02.2', 'the parent of LOC is created (or found) before the MOVE',
               bool(stop) and cut_c(b, g.entry, m.id, stop), node=m,
               message='missing parent directories of the original location are not '
                       'recreated before the move')
    # the MOVE primitives of both directions keep content and metadata
    pr = PutRoles(ctx)
    for e in moves + pr.moves:
        kw = e.data['kwargs']
        cf = strip(kw['copy_function']) if 'copy_function' in kw else None
        extra = e.data['args'][2:] if e.data['prim'] == 'shutil.move' else []
        if extra:
            cf = strip(extra[0])
        ok = cf is None or (isinstance(cf, ExtRef) and cf.qualname == 'shutil.copy2')
        ctx.ob('R02.2', 'the MOVE primitive preserves metadata when it has to copy', ok,
               node=e, message='%s is given copy_function=%s: when the move crosses a '
                               'volume, permissions and modification times of the entry '
                               'are not carried over' % (e.data['prim'], short(cf)))
    # ---- R02.3
    gp = core_generators(trash_dir_generators(pr.b), pr.b)
    gr = core_generators(trash_dir_generators(b), b)
    ctx.ob('R02.3', 'put and restore enumerate trash directories through the same functions',
           set(gp) == set(gr) and len(gp) >= 3, construct='trashcli.lib.trash_dirs',
           text='generators', message='put uses %s, restore uses %s'
                                      % (sorted(map(str, gp)), sorted(map(str, gr))))
    pairs = {}
    for ys in gr.values():
        for y in ys:
            for a in flat(y.data['value']):
                if isinstance(a, TupleT):
                    for d in flat(a.items[0]):
                        pairs.setdefault(cid(d), set()).update(alt_ids(a.items[1]))
    # restore: listing directories come from those pairs (or --trash-dir)
    reads = [e for e in b.effects('OPEN_READ')]
    for e in reads:
        for a in flat(e.data['roles']['path']):
            D = info_entry(a)
            if D is None:
                continue
            ds = flat(D)
            okd = True
            for d in ds:
                d0 = strip(d.args[0]) if is_call(d, 'os.path.normpath') else d
                if cid(d0) in pairs:
                    continue
                if any(is_option_value(x, 'trash_dir') for x in flat(d0)):
                    continue
                okd = False
            ctx.ob('R02.3', 'restore reads only directories produced by the shared '
                            'enumerators (or --trash-dir)', okd, node=e,
                   message='restore builds the trash directory %s on its own'
                           % short(D, 100))
    # ---- R02.4 base agreement (reader side per directory kind)
    for what, node, term in location_uses(ctx, 'restore'):
        if what != 'restore destination':
            continue
        for a in flat(term):
            for V, P, j in location_joins(a):
                opened = [y for y in walk(P) if isinstance(y, Call) and y.fn in ('open', 'io.open', 'codecs.open')]
                okv = False
                for o in opened:
                    for ia in flat(o.args[0]):
                        D = info_entry(ia)
                        if D is None:
                            continue
                        for d in flat(D):
                            d0 = strip(d.args[0]) if is_call(d, 'os.path.normpath') else d
                            if cid(d0) in pairs and alt_ids(V) <= pairs[cid(d0)]:
                                okv = True
                            if any(is_option_value(x, 'trash_dir') for x in flat(d0)):
                                okv = True
                ctx.ob('R02.4', 'the base joined by the reader is the volume paired with that '
                                'trash directory', okv, node=node,
                       message='restore resolves a relative Path against %s, which is not the '
                               'volume enumerated together with the directory' % short(V, 80))
    # writer side: prefix stripped = volume field of relative candidates
    for w in pr.writes:
        strips = []
        for x in walk(w.data['roles']['data']):
            if isinstance(x, Sub) and isinstance(x.index, Slice) and x.index.lower is not None \
                    and is_call(strip(x.index.lower), 'len'):
                arg = strip(strip(x.index.lower).args[0])
                if isinstance(arg, Bin) and arg.op == '+':
                    strips.append(arg.left)
        cand_vols = set()
        for ys in gp.values():
            for y in ys:
                for a in flat(y.data['value']):
                    if isinstance(a, TupleT):
                        cand_vols |= alt_ids(a.items[1])
        rel_vols = set()
        for a in pr.candidates_for(w.id):
            if 'path_maker_type' in a.fields and \
                    isinstance(strip(a.fields['path_maker_type']), EnumVal) and \
                    strip(a.fields['path_maker_type']).name == 'RelativePaths':
                rel_vols |= alt_ids(a.fields.get('volume', NONE))
        own_vols = set()
        for a in pr.candidates_for(w.id):
            own_vols |= alt_ids(a.fields.get('volume', NONE))
        for s_ in strips:
            ctx.ob('R02.4', 'the prefix stripped is, for every relative candidate, the volume '
                            'paired with that candidate', rel_vols <= alt_ids(s_), node=w,
                   message='the writer strips %s but relative candidates are paired with other '
                           'volumes too (e.g. --trash-dir reached through a symlink: restore '
                           'joins the volume of the directory as given)' % short(s_, 80))
            extra = [a for a in flat(s_) if cid(a) not in cand_vols and
                     not any(is_call(strip(a), 'os.path.abspath') for _ in [0])]
            ctx.ob('R02.4', 'the prefix stripped by the writer is the candidate\'s volume',
                   bool(alt_ids(s_)) and alt_ids(s_) <= own_vols, node=w,
                   message='the writer strips %s, which is not the volume paired with the '
                           'trash directory' % short(s_, 80))
