"""C07 -- trash-put picks the trash dir the spec prescribes, on the file's own volume."""
from .common import *  # noqa
from .putroles import PutRoles, candidate_sites
from .c05 import volume_equalities, involves_volumes, fallback_guards
from .c20 import dir_kind

EXPLANATION = (
    'Decision-table facts that are visible in the code: (R07.1) the ordered candidate '
    'table folds to <home, Absolute, NoCheck, SameVolume>, <$topdir/.Trash/$uid, Relative, '
    'TopTrashDirCheck, SameVolume>, <$topdir/.Trash-$uid, Relative, NoCheck, SameVolume> '
    'and, only under the CLI flag, <home, Absolute, NoCheck, HomeFallback>; with '
    '--trash-dir exactly one <dir, Relative, NoCheck, SameVolume>; (R07.2) every mkdir of '
    'trash-put receives mode 0o700 by constant propagation and no chmod follows; (R07.3) '
    'XDG_DATA_HOME is honoured only when set to a non-empty value (truthiness test, not '
    'bare membership), as the XDG base-dir spec requires; (R07.4) both operands of the '
    'same-volume equality are volume_of(realpath(.)) terms -- the file side on '
    'dirname(ARG), the other on the candidate; (R07.5) the prompt is reachable only in '
    'interactive mode; (R07.6) the home fallback needs both the flag (candidate) and the '
    'environment switch (gate).  The table over real mount layouts is not decided.')
ASSUMPTIONS = ['what ismount/realpath return at run time is outside the decided part',
               'hidden --force-volume testing option is ignored']
MINIMUM = {'R07.1': 5, 'R07.2': 1, 'R07.3': 1, 'R07.4': 1, 'R07.5': 1, 'R07.6': 2}
EXPECTED = {
    'home': ('AbsolutePaths', 'NoCheck', 'SameVolume'),
    '$topdir/.Trash/$uid': ('RelativePaths', 'TopTrashDirCheck', 'SameVolume'),
    '$topdir/.Trash-$uid': ('RelativePaths', 'NoCheck', 'SameVolume'),
    '--trash-dir': ('RelativePaths', 'NoCheck', 'SameVolume'),
    'home-fallback': ('AbsolutePaths', 'NoCheck', 'HomeFallback'),
}


# rules of sibling properties that are necessary conditions of this one too
# (evaluated by the sibling module on the same graphs, reported under this property)
ALSO = {'C08': {'R08.3': '$topdir/.Trash/$uid is used only when $topdir/.Trash passes the checks (a directory, not a symlink, sticky); otherwise $topdir/.Trash-$uid'},
 'C01': {'R01.6': 'the entry whose volume was judged is the entry that is moved',
         'R01.7': 'copy+delete only for EXDEV (and EXDEV only behind the home-fallback gate): '
                  'never a silent cross-device copy for another reason'},
 'C18': {'R18.3': 'the path moved is the normalised argument the volume was computed for'},
 'C16': {'R16.4': 'the same-volume verdict is established per argument, not remembered'}}

def enum_name(t):
    t = strip(t)
    return t.name if isinstance(t, EnumVal) else None


def reads_xdg(t):
    """The term *is* a path built from the value of $XDG_DATA_HOME (a format whose
    template names the variable, or one of whose holes is environ.get / environ[...] of
    it) -- the producing site, not a value computed from such a path."""
    def direct(x):
        x = strip(x)
        if isinstance(x, MCall) and x.name == 'get' and x.args and \
                is_const(strip(x.args[0]), 'XDG_DATA_HOME'):
            return True
        return isinstance(x, Sub) and is_const(strip(x.index), 'XDG_DATA_HOME')
    t = strip(t)
    if isinstance(t, Fmt):
        return 'XDG_DATA_HOME' in t.template or any(
            direct(a) for arg in t.args for a in flat(arg))
    if is_call(t, *JOIN):
        return any(direct(a) for arg in t.args for a in flat(arg))
    return False


def check(ctx):
    r = PutRoles(ctx)
    b, g = r.b, r.g
    opts = {o['dest']: o for o in r.opts}
    # ---- R07.1 candidate table
    cands = candidate_sites(b)
    ctx.require(cands, 'R07.1: no candidate construction found')
    td_dest = [o['dest'] for o in r.opts if '--trash-dir' in o['flags']]
    hf_dest = [o['dest'] for o in r.opts if '--home-fallback' in o['flags']]
    ctx.require(td_dest and hf_dest, 'R07.1: --trash-dir / --home-fallback not declared')

    def under(n, dest, pol):
        # (a dominating guard, or -- when the candidate is produced by a generator that
        # was selected under the option and consumed later -- every consistent path)
        return established(b, n.id, lambda c, p: p == pol and bool(flat(c)) and
                           all(is_option_value(x, dest) for x in flat(c)))
    rows = []
    for n, a in cands:
        kind = dir_kind(a.fields['trash_dir_path'])
        if kind.startswith('home'):
            kind = 'home'
        gate = enum_name(a.fields['gate'])
        if kind == 'home' and gate == 'HomeFallback':
            kind = 'home-fallback'
        row = (enum_name(a.fields['path_maker_type']), enum_name(a.fields['check_type']), gate)
        rows.append((n, kind, row))
        exp = EXPECTED.get(kind)
        ctx.ob('R07.1', 'candidate %s has attributes %s' % (kind, exp), row == exp, node=n,
               message='candidate %s is built as %s, the spec prescribes %s' % (kind, row, exp))
        if kind == '--trash-dir':
            ctx.ob('R07.1', '--trash-dir candidate only when the option is given',
                   under(n, td_dest[0], True), node=n)
        else:
            ctx.ob('R07.1', 'standard candidates only without --trash-dir',
                   under(n, td_dest[0], False), node=n,
                   message='candidate %s is also tried when --trash-dir restricts the choice'
                           % kind)
        if kind == 'home-fallback':
            ctx.ob('R07.6', 'the fallback candidate exists only under --home-fallback',
                   under(n, hf_dest[0], True), node=n,
                   message='the home trash is appended as a cross-volume fallback without '
                           'the --home-fallback flag')
    kinds = [k for n, k, row in rows]
    for need in ('home', '$topdir/.Trash/$uid', '$topdir/.Trash-$uid', '--trash-dir'):
        ctx.ob('R07.1', 'candidate %s is in the table' % need, need in kinds,
               construct='candidate table', text=need,
               message='no candidate for %s is ever tried' % need)
    # order: home < top < alt < fallback (reachability inside one argument iteration)
    order = ['home', '$topdir/.Trash/$uid', '$topdir/.Trash-$uid', 'home-fallback']
    first = {}
    for n, k, row in rows:
        first.setdefault(k, []).append(n.id)
    for a_, b_ in zip(order, order[1:]):
        if a_ in first and b_ in first:
            fwd = all(any(y in g.reachable_from(x, blocked=[r.arg_loop.id]) for x in first[a_])
                      for y in first[b_])
            back = any(x in g.reachable_from(y, blocked=[r.arg_loop.id])
                       for x in first[a_] for y in first[b_])
            ctx.ob('R07.1', '%s is tried before %s' % (a_, b_), fwd and not back,
                   construct='candidate table', text='%s before %s' % (a_, b_),
                   message='candidate order changed: %s is no longer tried before %s'
                           % (a_, b_))
    # ---- R07.2
    for e in r.mkdirs:
        mode = e.data['roles'].get('mode')
        ctx.ob('R07.2', 'trash directories are created with mode 0o700',
               mode is not None and is_const(strip(mode), 0o700), node=e,
               message='a trash directory is created with mode %s (readable by others)'
                       % (short(mode) if mode is not None else 'default 0o777'))
    leafs = {}
    for e in r.mkdirs:
        for parts in join_part_lists(e.data['roles']['path']):
            last = strip(parts[-1])
            tail = last.value if isinstance(last, Const) and last.value in ('files', 'info') \
                else 'trash dir'
            base = parts[:-1] if tail != 'trash dir' else parts
            leafs.setdefault(tail, []).append(e)
    for need in ('trash dir', 'files', 'info'):
        ctx.ob('R07.2', 'the %s is created explicitly (as the leaf of a mkdir with mode 0o700)'
               % need, need in leafs, construct='trash dir creation', text=need,
               message='the %s is only created implicitly as a parent by os.makedirs, which '
                       'applies the mode to the leaf only: it gets 0777 & ~umask' % need)
    for e in r.muts:
        if e.data['kind'] in ('CHMOD', 'CHOWN'):
            ctx.ob('R07.2', 'no chmod/chown after creation', False, node=e,
                   message='trash-put changes permissions with %s' % e.data['prim'])
    # ---- R07.3 (shared function: checked on the put and list graphs)
    for cmd in ('put', 'list'):
        bb = ctx.graph(cmd)
        prod = []
        first = {}
        for n in bb.nodes('return'):
            v = n.data.get('value')
            if v is None:
                continue
            tops = []
            for a in flat(v):
                tops.extend(a.items if isinstance(a, (ListObj, TupleT)) else [a])
            keys = set(cid(a) for x in tops for a in flat(x) if reads_xdg(a))
            if keys:
                prod.append(n)
            for k in keys:
                # the producing site of a path is the first return that carries it (nodes
                # are numbered in evaluation order): a later function that hands the
                # same path on -- a tuple of a candidate's directories, say -- is not
                if k not in first or n.id < first[k].id:
                    first[k] = n
        prod = [n for n in prod if any(f.id == n.id for f in first.values())]
        prod = [n for n in prod if not any(
            p.id != n.id and bb.g.dominates(p.id, n.id) for p in prod)]
        ctx.require(prod, 'R07.3: XDG_DATA_HOME is not consulted in %s' % cmd)
        seen = set()
        for n in prod:
            if n.func in seen:
                continue
            seen.add(n.func)
            def truthy_xdg(c2, p2):
                x = strip(c2)
                return p2 and (
                    (isinstance(x, MCall) and x.name == 'get' and bool(x.args) and
                     is_const(strip(x.args[0]), 'XDG_DATA_HOME')) or
                    (isinstance(x, Sub) and is_const(strip(x.index), 'XDG_DATA_HOME')))
            ok = established(bb, n.id, truthy_xdg)
            ctx.ob('R07.3', '%s: XDG_DATA_HOME is used only when non-empty' % cmd, ok, node=n,
                   message='XDG_DATA_HOME is selected by membership alone: when it is set but '
                           'empty the home trash becomes "/Trash" instead of '
                           '$HOME/.local/share/Trash (XDG base-dir spec: empty = unset)')
    # ---- R07.4
    cand_ids = set()
    for n, a in cands:
        cand_ids |= alt_ids(a.fields['trash_dir_path'])

    def on_candidate(t):
        for x in walk(t):
            if isinstance(x, Call) and x.fn == 'os.path.realpath' and x.args:
                arg = x.args[0]
                ids = set()
                for y in flat(arg):
                    y0 = strip(y.args[0]) if is_call(y, 'os.path.normpath') else y
                    ids |= alt_ids(y0)
                if ids and ids <= cand_ids:
                    return True
        return False
    eqs = [(n, c) for n, c, eq in volume_equalities(b) if eq and involves_volumes(r, c)
           and (on_candidate(c.left) or on_candidate(c.right))]
    ctx.ob('R07.4', 'same-volume equality compares volume_of(realpath(dirname(ARG))) with '
                    'volume_of(realpath(candidate))', bool(eqs), node=(r.moves or r.muts)[0],
           construct='same-volume gate', text='volume equality',
           message='no equality between the realpath-resolved volume of the file\'s parent '
                   'and the realpath-resolved volume of the trash directory guards '
                   'trash-put (a symlinked trash dir or parent crosses volumes silently)')
    # ---- R07.5
    mode_opts = [o for o in r.opts if '-i' in o['flags']]
    ctx.require(mode_opts, 'R07.5: -i option not declared')
    inter_const = strip(mode_opts[0]['const']) if mode_opts[0]['const'] is not None else None
    for n in [x for x in b.nodes('ext') if x.data['fn'] in ('input', 'raw_input')]:
        ok = False
        for c, pol, a in guards(b, n.id):
            for x in walk(c):
                if isinstance(x, Cmp) and x.op in ('==', 'is') and inter_const is not None \
                        and any(same(y, inter_const) for y in (x.left, x.right)):
                    ok = ok or pol
        ctx.ob('R07.5', 'the prompt is reachable only in interactive mode', ok, node=n,
               message='trash-put can prompt without -i')
    # ---- R07.6 env switch
    fb = [n for n, k, row in rows if k == 'home-fallback']
    gate_ok = False
    for n in b.nodes('new'):
        o = n.data.get('obj')
        if o is not None and o.cls.name == 'Right' and fallback_guards(b, g, n.id):
            gate_ok = True
    ctx.ob('R07.6', 'the fallback gate passes only under TRASH_ENABLE_HOME_FALLBACK == "1"',
           gate_ok or not fb, construct='home fallback gate', text='env switch',
           message='the home-fallback gate does not consult TRASH_ENABLE_HOME_FALLBACK')
