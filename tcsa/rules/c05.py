"""C05 -- killing trash-put at any instant loses nothing, leaves no orphan payload."""
from .common import *  # noqa
from .putroles import PutRoles, os_flags, is_left_test, success_tested_before

EXPLANATION = (
    'A kill stops trash-put between two nodes of its inlined effect graph; the on-disk '
    'state is the executed prefix of effects.  Typestate check per attempt (R05.1): the '
    'MOVE of the payload is dominated by CLOSE, WRITE and the exclusive OPEN of the very '
    '.trashinfo whose pbc() is the MOVE destination, is not reachable from an '
    'exceptional exit of those three, and no DELETE of the info follows a completed MOVE; '
    '(R05.2) exactly one WRITE, outside any inner loop, of the complete folded template; '
    '(R05.3) for same-volume candidates the equality of the two volume_of(realpath(.)) '
    'terms being true dominates mkdir/create/move; the only other way through the gate is '
    'the home fallback guarded by the CLI flag and TRASH_ENABLE_HOME_FALLBACK == "1".  '
    'Evidence lists the number of crash points between first and last effect.  Does not '
    'decide atomicity of rename(2), short writes, or states inside a cross-device '
    'shutil.move.')
ASSUMPTIONS = ['A1 rename(2) atomic', 'A3 os.write of the info content is not short',
               'a kill happens between two graph nodes']
MINIMUM = {'R05.1': 4, 'R05.2': 2, 'R05.3': 3}
TEMPLATE = '[Trash Info]\nPath=%s\nDeletionDate=%s\n'






# rules of sibling properties that are necessary conditions of this one too
# (evaluated by the sibling module on the same graphs, reported under this property)
ALSO = {'C01': {'R01.8': 'a name is reserved only while files/<name> is free: otherwise the arriving payload is written through or into what lies there and the entry is complete in neither place',
         'R01.3': 'the reservation is released only when the payload did not move (also at a '
                  'kill between the two)',
         'R01.6': 'closed effect set: every crash point lies between these effects',
         'R01.7': 'copy+delete (whose failure leaves the entry partly in each place) is '
                  'taken for EXDEV only'},
 'C18': {'R18.3': 'what is moved -- and copied by the fallback -- is the normalised argument: '
                  '"link/" names the link, not the directory behind it'},
 'C02': {'R02.2': 'when the move has to copy, it copies the whole entry and then deletes the '
                  'source (copy_function)'},
 'C04': {'R04.1': 'exclusive creation',
         'R04.6': "a kill/failed creation must not delete another process's info"}}

def content_template(t):
    """The folded Fmt template(s) of a WRITE buffer term."""
    out = []
    for x in walk(t):
        if isinstance(x, Fmt):
            out.append(x.template)
        elif isinstance(x, Const) and isinstance(x.value, (str, bytes)) and \
                'Trash Info' in str(x.value):
            out.append(x.value)
    return out


def check(ctx):
    r = PutRoles(ctx)
    b, g = r.b, r.g
    ctx.require(r.muts, 'trash-put has no mutating effect at all (anchor vanished)')
    if not r.opens:
        ctx.ob('R05.1', 'the .trashinfo is created through os.open', False, node=r.muts[0],
               construct='trashcli.put.main.main', text='no os.open',
               message='no os.open-style exclusive creation of the .trashinfo is reachable '
                       'from trash-put (content is written by %s)'
                       % sorted(set(e.data['prim'] for e in r.muts)))
    if not r.moves:
        ctx.ob('R05.1', 'the payload is moved by a MOVE primitive', False, node=r.muts[-1],
               construct='trashcli.put.main.main', text='no MOVE',
               message='no MOVE primitive is reachable from trash-put')
    for m in r.moves:
        dst = m.data['roles']['dst']
        infos = [match_pbc(a) for a in flat(dst)]
        ok_dst = all(i is not None for i in infos)
        ctx.ob('R05.1', 'MOVE destination is pbc(info path)', ok_dst, node=m,
               message='the payload is moved to %s, which is not the files/ twin of a '
                       '.trashinfo path' % short(dst, 120))
        if not ok_dst:
            continue
        info_ids = frozenset(cid(i) for i in infos)
        def dom(a, n):
            # dominance that ignores self-contradicting paths (a failure handed on as a
            # value and tested later is not a way around a)
            return g.dominates(a, n) or cut_c(b, r.arg_iteration, n, [a])
        opens = [o for o in r.opens if alt_ids(r.info_of(o)) == info_ids and
                 dom(o.id, m.id)]
        ctx.ob('R05.1', 'MOVE is dominated by the exclusive creation of its own .trashinfo',
               bool(opens), node=m,
               message='the payload can be moved before (or without) the creation of the '
                       '.trashinfo it is paired with')
        for o in opens:
            fd = cid(o.data['result'])
            ws = [w for w in r.writes if cid(w.data['roles']['fd']) == fd]
            cs = [c for c in r.closes if cid(c.data['roles']['fd']) == fd]
            chain_ok = any(g.dominates(o.id, w.id) and dom(w.id, m.id) for w in ws) \
                and any(dom(c.id, m.id) and
                        any(g.dominates(w.id, c.id) for w in ws) for c in cs)
            ctx.ob('R05.1', 'OPEN(excl) -> WRITE -> CLOSE all dominate the MOVE', chain_ok,
                   node=m, message='the payload can arrive under files/ before its '
                                   '.trashinfo is completely written and closed')
            for x in [o] + ws + cs:
                bad = bool(reachable_c(b, exc_successors(b, x.id), [m.id], blocked=[o.id]))
                ctx.ob('R05.1', 'MOVE is not reachable from a failed %s' % x.data['kind'],
                       not bad, node=x,
                       message='after a failed %s of the .trashinfo the payload is still '
                               'moved' % x.data['kind'])
            # R05.2 single write of the whole content
            ctx.ob('R05.2', 'exactly one WRITE between exclusive create and close',
                   len(ws) == 1, node=o,
                   message='the .trashinfo content is written by %d os.write calls: a kill '
                           'between them leaves a partial info next to nothing, and a '
                           'partial info is unparsable' % len(ws))
            for w in ws:
                looped = w.id in g.reachable_from([t for t, _ in g.succ[w.id]],
                                                  blocked=[o.id])
                ctx.ob('R05.2', 'WRITE is not repeated in a loop', not looped, node=w,
                       message='the WRITE of the info content sits in a loop')
                tm = content_template(w.data['roles']['data'])
                ctx.ob('R05.2', 'WRITE buffer is the whole folded template',
                       TEMPLATE in tm, node=w,
                       message='the single WRITE does not carry the whole .trashinfo '
                               'template (found %r)' % tm)
        # no DELETE(info) after a completed MOVE (would orphan the payload)
        for d in r.deletes:
            if alt_ids(d.data['roles']['path']) == info_ids:
                after = reachable_c(b, normal_successors(b, m.id), [d.id],
                                    blocked=[o.id for o in r.opens])
                ctx.ob('R05.1', 'the .trashinfo is never deleted after a completed MOVE',
                       not after, node=d,
                       message='the .trashinfo can be deleted after the payload was moved '
                               'into files/ (orphan payload)')
    # no other MOVE/WRITE outside the typestate
    for e in r.muts:
        if e.data['kind'] in ('MOVE',) and e not in r.moves:
            ctx.ob('R05.1', 'no MOVE outside the attempt typestate', False, node=e)

    # ---- R05.3 gate dominates
    gate_rule(ctx, r)
    first = min([e.id for e in r.muts]) if r.muts else 0
    region = g.reachable_from(r.arg_iteration, blocked=[r.arg_loop.id])
    ctx.note('crash points (graph nodes of one argument iteration): %d; effect nodes '
             'among them: %d' % (len(region), len([e for e in r.muts if e.id in region])))


def volume_equalities(b):
    """assume nodes stating equality of two volume terms."""
    out = []
    for n in b.nodes('assume'):
        c, pol = unwrap_not(n.data['cond'], n.data['pol'])
        if isinstance(c, Cmp) and c.op in ('==', '!='):
            eq = pol if c.op == '==' else not pol
            out.append((n, c, eq))
    return out


def is_volume_of_realpath(t, want):
    """t = <volume walk>(realpath(X)) with want(X).  The volume walk is the
    dirname-fixpoint loop seeded with abspath(realpath(X))."""
    # the walk starts *at* the resolved path: abspath(realpath(X)) (or realpath(X)) is one
    # of the values of the walk variable -- not dirname(realpath(X)), which is the volume of
    # the directory that holds X (wrong when X itself is a mount point)
    def resolved(y):
        return is_call(y, 'os.path.realpath') and bool(y.args) and want(y.args[0])
    for a in flat(t):
        if isinstance(a, BoolT) and a.op == 'or':
            # "forced_volume or <volume of the parent>": the computed alternative counts
            if any(is_volume_of_realpath(v, want) for v in a.values):
                return True
            continue
        if resolved(a):
            return True
        if is_call(a, 'os.path.abspath', 'os.path.normpath') and a.args and \
                any(resolved(y) for y in flat(a.args[0])):
            return True
    return False


def gate_rule(ctx, r):
    b, g = r.b, r.g
    effects = r.mkdirs + r.opens + r.moves
    cache = {}
    for e in effects:
        tests = [(rt.data['value'], rt) for rt in success_tested_before(b, r, e, cache)]
        gate_ok = False
        detail = 'no Either-typed gate result is tested before this effect'
        for x, n in tests:
            rights = [a for a in flat(x) if isinstance(a, Obj) and a.cls.name == 'Right']
            sites = [a.site for a in rights if a.site is not None]
            if not sites:
                continue
            eqs = volume_equalities(b)
            kinds = []
            for s in sites:
                same_vol = [n2 for n2, c, eq in eqs if eq and g.dominates(n2.id, s) and
                            involves_volumes(r, c)]
                fb = fallback_guards(b, g, s)
                kinds.append('same-volume' if same_vol else ('fallback' if fb else None))
            if 'same-volume' in kinds:
                if all(k is not None for k in kinds):
                    gate_ok = True
                else:
                    detail = 'a pass of the gate is produced neither under equal volumes ' \
                             'nor under the enabled home fallback'
        ctx.ob('R05.3', 'same-volume gate (or the enabled home fallback) dominates the '
                        'effect', gate_ok, node=e,
               message='%s of trash-put is not dominated by the same-volume test: %s'
                       % (e.data['kind'], detail))


def is_parent_of_arg(r, x):
    """x = dirname(N(ARG)) with N a composition of pure path normalisers."""
    ok = False
    for a in flat(x):
        if not is_call(a, *DIRNAME):
            return False
        ch = transformer_chain(a.args[0], r.is_arg)
        if ch is None or not ch <= {'os.path.normpath', 'os.path.abspath'}:
            return False
        if not ch & {'os.path.normpath', 'os.path.abspath'}:
            # dirname('link/') is the link itself, not its parent: the argument must
            # lose its trailing separators first (the move sink does so as well)
            return False
        ok = True
    return ok


def involves_volumes(r, c):
    """Both operands of the equality are volume terms: one computed from the
    trash directory through realpath, the other from the argument's parent
    through realpath."""
    l, rr = c.left, c.right

    def from_arg_parent(t):
        return is_volume_of_realpath(t, lambda x: is_parent_of_arg(r, x))

    def from_trash_dir(t):
        return is_volume_of_realpath(t, lambda x: not is_parent_of_arg(r, x))
    return (from_arg_parent(l) and from_trash_dir(rr)) or \
        (from_arg_parent(rr) and from_trash_dir(l))


def fallback_guards(b, g, site):
    """site is dominated by env TRASH_ENABLE_HOME_FALLBACK == '1'."""
    for n in g.assumes_dominating(site):
        c, pol = unwrap_not(n.data['cond'], n.data['pol'])
        if isinstance(c, Cmp) and ((c.op == '==' and pol) or (c.op == '!=' and not pol)):
            for side, other in ((c.left, c.right), (c.right, c.left)):
                if is_const(strip(other), '1') and contains(
                        side, lambda x: is_const(x, 'TRASH_ENABLE_HOME_FALLBACK')):
                    return True
    return False
