"""C15 -- killing restore, empty or rm never strands a payload without info.

Every node of the inlined graph is a crash point; the on-disk state at a kill is
the executed prefix of effects.  So the property reduces to order facts.
"""
from .common import *  # noqa
from .. import prims

EXPLANATION = (
    'Order analysis on the inlined effect graphs of trash-restore, trash-empty and '
    'trash-rm (generators woven into their consumers).  For every DELETE of an '
    'info/*.trashinfo path I: every path from the entry to it passes a node that '
    'handles the payload pbc(I) first (MOVE out of the trash, DELETE of pbc(I), or a '
    'no-follow presence probe of pbc(I) answering "absent"); the info DELETE is not '
    'reachable from the exceptional exits of the MOVE, and in trash-rm blocking the '
    'normal exits of the payload removals cuts it off (no finally / handler that goes on '
    'to the info); no payload removal ignores its errors (rmtree ignore_errors/onerror); '
    'payload DELETEs are '
    'existence-tolerant so that a re-run completes; orphan payloads are in empty\'s '
    'delete set.  Decides the order of effects at every crash point; does not decide '
    'intermediate states inside one shutil.move / rmtree call (stdlib).')
ASSUMPTIONS = [
    'A1 rename(2) is atomic; A2 shutil.move copies before deleting, os.remove/rmtree '
    'never follow links',
    'a kill stops the program between two nodes of the inlined graph',
]
MINIMUM = {'R15.1': 1, 'R15.2': 2, 'R15.3': 2, 'R15.4': 4}


# rules of sibling properties that are necessary conditions of this one too
# (evaluated by the sibling module on the same graphs, reported under this property)
ALSO = {'C10': {'R10.4': 'entries are removed whole, re-runs complete'},
 'C11': {'R11.1': 'the payload delete works for every kind of payload, so the info is not '
                  'removed without it'}}

def classify(path):
    kinds = set()
    infos = set()
    for a in flat(path):
        i = match_pbc(a)
        if i is not None:
            kinds.add('payload')
            infos.update(alt_ids(i))
        elif info_entry(a) is not None:
            kinds.add('info')
            infos.add(cid(a))
        elif files_entry(a) is not None:
            kinds.add('orphan')
        else:
            kinds.add('other')
    return kinds, frozenset(infos)


def presence_false_assumes(b, infos):
    """assume nodes stating that a no-follow presence probe of pbc(I) is false."""
    out = []
    for n in b.nodes('assume'):
        c, pol = unwrap_not(n.data['cond'], n.data['pol'])
        if pol:
            continue
        pn = probe_result_of(c)
        if pn is None:
            continue
        pd = b.g.n(pn).data
        if pd['role'] != 'presence' or pd['follow']:
            continue
        k, inf = classify(pd['args'][0])
        if k == {'payload'} and inf == infos:
            out.append(n.id)
    return out


def check(ctx):
    for cmd, rule in (('restore', 'R15.1'), ('empty', 'R15.2'), ('rm', 'R15.3')):
        b = ctx.graph(cmd)
        g = b.g
        effs = b.effects('DELETE', 'MOVE')
        cls = {}
        for e in effs:
            p = e.data['roles'].get('src') if e.data['kind'] == 'MOVE' else \
                e.data['roles'].get('path')
            cls[e.id] = classify(p)
        for e in effs:
            if len(cls[e.id][0]) != 1 or 'other' in cls[e.id][0]:
                ctx.ob(rule, 'DELETE/MOVE acts on exactly one kind of trash entry '
                             '(payload, .trashinfo or orphan)', False, node=e,
                       message='%s: %s of %s: the order payload-before-info cannot be '
                               'established for a path that is %s'
                               % (cmd, e.data['kind'], short(path_role(e), 100),
                                  '/'.join(sorted(cls[e.id][0]))))
        for e in effs:
            if e.data.get('errors_ignored') and 'info' not in cls[e.id][0]:
                ctx.ob(rule, 'a payload removal that fails does so loudly', False, node=e,
                       message='%s: %s ignores its errors: a payload that could not be '
                               'removed is taken for removed, its .trashinfo is deleted '
                               'after it and nothing is reported' % (cmd, e.data['prim']))
        info_deletes = [e for e in effs if e.data['kind'] == 'DELETE' and
                        cls[e.id][0] == {'info'}]
        ctx.require(info_deletes or ctx.findings, '%s: no DELETE of an info/*.trashinfo entry found in '
                                  'the %s graph (anchor vanished)' % (rule, cmd))
        for d in info_deletes:
            kinds, infos = cls[d.id]
            handlers = [e.id for e in effs
                        if cls[e.id][0] == {'payload'} and cls[e.id][1] == infos]
            absent = presence_false_assumes(b, infos)
            ok = cut_c(b, g.entry, d.id, set(handlers) | set(absent))
            witness = None
            if not ok:
                pth = g.some_path(g.entry, d.id, blocked=set(handlers) | set(absent))
                witness = [g.n(x).loc() for x in (pth or []) if g.n(x).kind in
                           ('call', 'effect', 'yield')][-8:]
            ctx.ob(rule, 'payload is moved/deleted (or found absent) before its .trashinfo '
                         'is deleted', ok, node=d,
                   message='%s: the .trashinfo can be deleted on a path on which its payload '
                           'was not handled first (a kill right after leaves a payload '
                           'without info); path: %s' % (cmd, witness),
                   sample={'info': short(d.data['roles']['path'], 120),
                           'payload_handlers': [g.n(h).loc() for h in handlers][:4]})
            # ... and not merely *attempted*: the .trashinfo must not be deleted on a way
            # on which every payload removal was left exceptionally (try/finally, a
            # handler that goes on): blocking the normal exits of the payload handlers
            # must cut the .trashinfo DELETE off
            if cmd == 'rm' and ok and handlers and d.id not in handlers:
                normal_out = set()
                for h in handlers:
                    normal_out.update(normal_successors(b, h))
                loud = d.id not in g.reachable_from(
                    [g.entry], blocked=normal_out | set(absent))
                ctx.ob(rule, 'the .trashinfo is deleted only after a payload removal that '
                             'completed', loud, node=d,
                       message='%s: the .trashinfo is deleted although the removal of its '
                               'payload was interrupted or failed (finally / handler that '
                               'goes on): the half-removed payload is stranded without info'
                               % cmd)
            # the info DELETE must not follow a *failed* MOVE
            for h in handlers:
                hn = g.n(h)
                if hn.data['kind'] != 'MOVE':
                    continue
                bad = reachable_only_exceptionally(b, h, d.id)
                ctx.ob(rule, 'info DELETE lies only on the normal exit of the MOVE', not bad,
                       node=d, message='%s: the .trashinfo is deleted after a failed move of '
                                       'its payload (%s)' % (cmd, hn.loc()))
        if cmd == 'restore':
            moves = [e for e in effs if e.data['kind'] == 'MOVE']
            for m in moves:
                ctx.ob(rule, 'restore moves exactly the payload of a listed .trashinfo',
                       cls[m.id][0] == {'payload'}, node=m,
                       message='restore moves something that is not pbc(listed info): %s'
                               % short(m.data['roles']['src']))
        # R15.4 existence tolerance + orphans
        if cmd in ('empty', 'rm'):
            for e in effs:
                if e.data['kind'] != 'DELETE' or cls[e.id][0] != {'payload'}:
                    continue
                ok = False
                for c, pol, n in guards(b, e.id):
                    c2, pol2 = unwrap_not(c, pol)
                    pn = probe_result_of(c2)
                    if pn is None or not pol2:
                        continue
                    pd = g.n(pn).data
                    if pd['role'] == 'presence' and not pd['follow'] and \
                            alt_ids(pd['args'][0]) == alt_ids(e.data['roles']['path']):
                        ok = True
                ctx.ob('R15.4', 'payload DELETE is guarded by a no-follow presence probe '
                                '(re-run after a kill reaches the info DELETE)', ok, node=e,
                       message='%s: deleting a payload that is already gone raises instead of '
                               'proceeding to its .trashinfo' % cmd)
        if cmd == 'empty':
            orphans = [e for e in effs if e.data['kind'] == 'DELETE' and
                       'orphan' in cls[e.id][0]]
            ctx.ob('R15.4', 'payloads without .trashinfo are in trash-empty\'s delete set',
                   bool(orphans), construct='trashcli.empty.emptier.Emptier.files_to_delete',
                   text='list_orphans',
                   message='trash-empty no longer deletes payloads lacking a .trashinfo '
                           '(what a killed restore/empty leaves behind cannot be purged)')
