"""C11 -- purging touches nothing outside files/ and info/, follows no symlink."""
from .common import *  # noqa

EXPLANATION = (
    'Frame analysis of the trash-empty and trash-rm effect graphs: (R11.3) the only '
    'mutating primitives reachable from the two entry scripts are DELETEs; (R11.1) they '
    'are os.remove/os.unlink/os.rmdir, and shutil.rmtree only as the fallback handler of '
    'a failed os.remove of the same path or under a no-follow "is not a link" guard; '
    '(R11.2) every DELETE argument is join(D/info, e), pbc(join(D/info, e)) or '
    'join(D/files, e) with e an element of os.listdir of that very directory -- never an '
    'original location, a resolved path or a user string; (R11.4) no recursive walk feeds '
    'a DELETE.  Decides which primitives are called on which path terms; does not decide '
    'that os.remove / shutil.rmtree themselves never follow links (stdlib, A2).')
ASSUMPTIONS = [
    'A2: os.remove unlinks a symlink, fails on a directory; shutil.rmtree refuses a '
    'symlink and does not follow links inside the tree',
    'elements of os.listdir contain no path separator',
]
MINIMUM = {'R11.1': 4, 'R11.2': 4, 'R11.3': 2, 'R11.5': 3}
ALLOWED_DELETE = {'os.remove', 'os.unlink', 'os.rmdir', 'shutil.rmtree'}
LINK_SAFE = {'os.remove', 'os.unlink', 'os.rmdir'}


# rules of sibling properties that are necessary conditions of this one too
# (evaluated by the sibling module on the same graphs, reported under this property)
ALSO = {'C08': {'R08.1': 'a $topdir/.Trash that is a symlink is never emptied through'},
 'C15': {'R15.4': 'whether a payload is there to be unlinked is decided without following it '
                  '(a trashed dangling link is unlinked like any other)'},
 'C18': {'R18.5': 'tests on a trashed payload do not follow symlinks'}}

def check(ctx):
    # ---- R11.5 the payload name derived from an info name is a real name
    for cmd in ('empty', 'rm', 'restore'):
        b = ctx.graph(cmd)
        for e in mutating_effects(b, 'DELETE', 'MOVE'):
            p = e.data['roles'].get('src') if e.data['kind'] == 'MOVE' else \
                e.data['roles'].get('path')
            if p is None or not all(match_pbc(a) is not None for a in flat(p)):
                continue
            ok = excludes_degenerate_names(b, e, None)
            if not ok:
                # the entry reaches this effect through collected objects: it exists only
                # if its .trashinfo was read, so the guard may sit on that read
                infos = set()
                for a in flat(p):
                    infos |= alt_ids(match_pbc(a))
                reads = [r_ for r_ in b.effects('OPEN_READ')
                         if alt_ids(r_.data['roles']['path']) & infos]
                covered = set()
                for r_ in reads:
                    covered |= alt_ids(r_.data['roles']['path'])
                ok = bool(reads) and infos <= covered and \
                    all(guarded_read(b, r_) for r_ in reads)
            ctx.ob('R11.5', '%s: pbc() is applied only to info names with a real payload name'
                   % cmd, ok, node=e,
                   construct='%s payload of listed info' % cmd,
                   text='%s %s' % (e.data['kind'], e.func),
                   message='%s: an entry of info/ named ".trashinfo", "..trashinfo" or '
                           '"...trashinfo" ends in ".trashinfo", so its payload path is '
                           'files/, files/. or files/.. -- the %s then hits the whole files/ '
                           'directory or the trash directory itself' % (cmd, e.data['kind']))
    for cmd in ('empty', 'rm'):
        b = ctx.graph(cmd)
        g = b.g
        muts = mutating_effects(b)
        ctx.require(muts, 'C11: no mutating effect at all in the %s graph' % cmd)
        others = [e for e in muts if e.data['kind'] != 'DELETE']
        ctx.ob('R11.3', '%s: the only mutating effect kind is DELETE' % cmd, not others,
               node=others[0] if others else None,
               construct=None if others else b.func.qualname, text='' if not others else None,
               message='%s performs %s (%s): purging must only delete trash entries'
                       % (cmd, others[0].data['kind'] if others else '',
                          others[0].data['prim'] if others else ''))
        for e in others[1:]:
            ctx.ob('R11.3', '%s: the only mutating effect kind is DELETE' % cmd, False, node=e,
                   message='%s performs %s (%s)' % (cmd, e.data['kind'], e.data['prim']))
        for e in [x for x in muts if x.data['kind'] == 'DELETE']:
            prim = e.data['prim']
            path = e.data['roles'].get('path')
            # ---- R11.1 idiom
            ok = prim in ALLOWED_DELETE
            why = ''
            if ok and prim not in LINK_SAFE:
                ok, why = rmtree_is_fallback(b, e)
            ctx.ob('R11.1', 'DELETE primitive cannot follow a symlink', ok, node=e,
                   message='%s: %s on %s may act through a symbolic link: %s'
                           % (cmd, prim, short(path, 80), why or 'primitive not in the '
                              'accepted set'))
            # ---- R11.2 provenance
            bad = []
            for a in flat(path):
                i = match_pbc(a)
                if i is not None:
                    if not all(info_entry(x) is not None for x in flat(i)):
                        bad.append(a)
                elif info_entry(a) is None and files_entry(a) is None:
                    bad.append(a)
            ctx.ob('R11.2', 'DELETE argument derives from a listing of info/ or files/ only',
                   not bad, node=e,
                   message='%s deletes %s, which is not an entry listed from the trash '
                           'directory\'s own info/ or files/' %
                           (cmd, short(bad[0], 140) if bad else ''),
                   sample={'path': short(path, 140)})
            # ---- R11.4
            walked = contains(path, lambda x: isinstance(x, Call) and x.fn in (
                'os.walk', 'glob.glob', 'glob.iglob', 'os.scandir'))
            resolved = contains(path, lambda x: isinstance(x, Call) and x.fn in (
                'os.path.realpath', 'os.readlink', 'os.path.abspath'))
            ctx.ob('R11.4', 'no traversal / resolution feeds a DELETE', not (walked or resolved),
                   node=e, message='%s: DELETE argument %s comes from a recursive walk or a '
                                   'link-resolving call' % (cmd, short(path, 100)))


def excludes_degenerate_names(b, e, infos):
    """The effect e on pbc(I) is guarded by a test that rules out the info names whose
    payload name would be '', '.' or '..' (pbc would then be files/, files/. or the
    trash directory itself)."""
    names = set()
    for a in flat(path_role(e) if e.data['kind'] != 'MOVE' else e.data['roles']['src']):
        i = match_pbc(a)
        for x in walk(i if i is not None else a):
            if isinstance(x, Elem) and is_call(strip(x.container), 'os.listdir'):
                names.add(cid(x))
    def excl(c2, p2):
        x = strip(c2)
        if not (isinstance(x, Cmp) and x.op in ('in', 'not in')):
            return False
        if not contains(x.left, lambda y: cid(y) in names):
            return False
        consts = set()
        for y in walk(x.right):
            if isinstance(y, Const) and isinstance(y.value, str):
                consts.add(y.value)
            if isinstance(y, Const) and isinstance(y.value, (tuple, list)):
                consts |= set(y.value)
        covers = {'', '.', '..'} <= consts or \
            {'.trashinfo', '..trashinfo', '...trashinfo'} <= consts
        excluded = (x.op == 'not in' and p2) or (x.op == 'in' and not p2)
        return covers and excluded
    return established(b, e.id, excl)


def guarded_read(b, r_):
    fake = type('E', (), {})()
    fake.id = r_.id
    fake.data = {'kind': 'DELETE', 'roles': {'path': r_.data['roles']['path']}, 'args': [
        r_.data['roles']['path']]}
    return excludes_degenerate_names(b, fake, None)


def rmtree_is_fallback(b, e):
    """rmtree is acceptable when (a) every way into it comes from the exception
    handler of an os.remove/os.unlink of the same path, or (b) it is guarded by a
    no-follow test that the path is not a link."""
    g = b.g
    path = e.data['roles'].get('path')
    pid = alt_ids(path)
    h = last_dominating(b, e.id, 'handler')
    if h is not None:
        srcs = [(s, l) for s, l in g.pred[h] if s in b.live]
        if srcs and all(l and l.startswith('exc:') and g.n(s).kind == 'effect' and
                        g.n(s).data['prim'] in ('os.remove', 'os.unlink') and
                        alt_ids(g.n(s).data['roles'].get('path')) == pid
                        for s, l in srcs):
            # nothing between handler entry and rmtree may re-bind: same term => fine
            return True, ''
    for c, pol, n in guards(b, e.id):
        c2, pol2 = unwrap_not(c, pol)
        pn = probe_result_of(c2)
        if pn is None:
            continue
        pd = g.n(pn).data
        if pd['prim'] == 'os.path.islink' and not pol2 and \
                alt_ids(pd['args'][0]) == pid:
            return True, ''
    follow = [n for c, pol, n in guards(b, e.id)
              if probe_result_of(unwrap_not(c, pol)[0]) is not None and
              g.n(probe_result_of(unwrap_not(c, pol)[0])).data['prim'] == 'os.path.isdir']
    if follow:
        return False, 'chosen by os.path.isdir (%s), which follows links' % follow[0].loc()
    return False, 'not the fallback of a failed os.remove of the same path'
