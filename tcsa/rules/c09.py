"""C09 -- trash-list shows exactly what is in the trash after any history."""
from .common import *  # noqa
from .readroles import *  # noqa
from .putroles import PutRoles
from .c15 import classify

EXPLANATION = (
    'The bag semantics over command histories is not decidable statically; decided are '
    'its structural preconditions.  (R09.1) the on-disk layout constants of the writer '
    '(info/, files/, ".trashinfo", pbc slice) and of every reader/purger agree; (R09.2) on '
    'the trash-list graph every listed *.trashinfo that is read leads to a stdout line '
    '"<date> <join(volume, unquote(Path))>" guarded only by "read succeeded" and "Path '
    'parsed" -- no filter on date, size or payload presence sits between reading and '
    'printing; (R09.3) restore, rm and empty act on the pair (pbc(I), I) of one listed I; '
    '(R09.4) list, empty and rm obtain their trash directories from the same scanner '
    'generator, so they see the same set; (R09.7) no reader guards the listing of '
    '$topdir/.Trash-$uid with a no-follow test on it (trash-put fills a symlinked one); (R09.8) in empty, list, rm and restore no generator object is iterated by a second loop on a run-consistent path from the end of a first one (the second walk would see nothing).  '
    'Restore\'s separate enumerator is judged under C20/C08.')
ASSUMPTIONS = ['a trash entry is the pair files/N + info/N.trashinfo (spec)']
MINIMUM = {'R09.1': 6, 'R09.2': 4, 'R09.3': 3, 'R09.4': 3, 'R09.5': 3, 'R09.6': 4, 'R09.7': 3, 'R09.8': 4}
SUFFIX = '.trashinfo'






# rules of sibling properties that are necessary conditions of this one too
# (evaluated by the sibling module on the same graphs, reported under this property)
ALSO = {'C02': {'R02.4': 'the relative Path is relative to the volume the readers join'},
 'C03': {'R03.1': 'what list prints is the decoded Path exactly as written'},
 'C04': {'R04.6': 'an entry must not lose its .trashinfo to a concurrent trash-put'},
 'C10': {'R10.1': 'after trash-empty N exactly the entries older than N days are gone',
         'R10.2': 'after trash-empty N exactly the entries older than N days are gone',
         'R10.4': 'a payload is purged as an orphan only when its .trashinfo is absent at that '
                  'moment'},
 'C15': {'R15.3': 'an entry that trash-rm failed to purge keeps its .trashinfo (payload first, '
                  'info last)'},
 'C20': {'R20.2': 'list/rm/restore show the same location for an entry'}}

def suffix_guarded(b, node, entry_term):
    """The listing element is tested with endswith('.trashinfo')."""
    return established(b, node.id, lambda c2, p2: isinstance(c2, MCall) and
                       c2.name == 'endswith' and p2 and bool(c2.args) and
                       is_const(strip(c2.args[0]), SUFFIX))


def degenerate_name_test(c):
    """A test that excludes only the names whose payload name would be '', '.' or
    '..' ('.trashinfo', '..trashinfo', '...trashinfo')."""
    c = strip(c)
    if isinstance(c, Cmp) and c.op in ('in', 'not in', '==', '!='):
        consts = set()
        for x in walk(c.right):
            if isinstance(x, Const) and isinstance(x.value, str):
                consts.add(x.value)
            if isinstance(x, Const) and isinstance(x.value, tuple):
                consts |= set(x.value)
        return bool(consts) and (consts <= {'', '.', '..'} or
                                 consts <= {'.trashinfo', '..trashinfo', '...trashinfo'})
    return False


def accepted_name_test(c2):
    """Tests on a name listed from info/ that do not drop a genuine entry: the suffix
    test, the type tag derived from it, the degenerate-name exclusion -- and boolean
    combinations of those (a predicate helper returning "a and b")."""
    c2, _ = unwrap_not(c2, True)
    if isinstance(c2, BoolT):
        return all(accepted_name_test(v) for v in c2.values)
    if isinstance(c2, Phi):
        return all(accepted_name_test(a) or isinstance(strip(a), Const) for a in c2.terms())
    if isinstance(c2, MCall) and c2.name == 'endswith' and c2.args and \
            is_const(strip(c2.args[0]), SUFFIX):
        return True
    if isinstance(c2, Cmp) and c2.op == '==' and is_const(strip(c2.right),
                                                         'trashinfo', 'non_trashinfo'):
        return True
    return degenerate_name_test(c2)


def check(ctx):
    # ---- R09.1 writer
    r = PutRoles(ctx)
    for o in r.opens:
        ok = True
        for parts in join_part_lists(r.info_of(o)):
            okp = len(parts) >= 2 and any(is_const(strip(p), 'info') for p in parts[:-1])
            last = strip(parts[-1]) if parts else None
            oks = contains(last, lambda x: is_const(x, SUFFIX)) if last is not None else False
            ok = ok and okp and oks
        ctx.ob('R09.1', 'writer creates info/<name>.trashinfo', ok, node=o,
               message='the info file is created as %s' % short(r.info_of(o), 100))
    for m in r.moves:
        ctx.ob('R09.1', 'writer moves the payload to files/<name> (pbc of the info path)',
               all(match_pbc(a) is not None for a in flat(m.data['roles']['dst'])), node=m)
    # readers
    for cmd in ('list', 'restore', 'rm', 'empty'):
        b = ctx.graph(cmd)
        reads = b.effects('OPEN_READ')
        ctx.require(reads, 'R09.1: %s reads no .trashinfo' % cmd)
        seen = set()
        for e in reads:
            path = e.data['roles']['path']
            if cid(path) in seen:
                continue
            seen.add(cid(path))
            ok = all(info_entry(a) is not None for a in flat(path))
            ctx.ob('R09.1', '%s reads entries listed from <trash dir>/info' % cmd, ok, node=e,
                   message='%s reads %s, not an element of a listing of info/'
                           % (cmd, short(path, 100)))
            ctx.ob('R09.1', '%s considers only names ending in ".trashinfo"' % cmd,
                   suffix_guarded(b, e, path), node=e,
                   message='%s reads info/ entries without testing the ".trashinfo" suffix'
                           % cmd)
    # ---- R09.6 between listing info/ and reading an entry only the suffix is tested
    for cmd in ('list', 'restore', 'rm', 'empty'):
        bb = ctx.graph(cmd)
        gg = bb.g
        seen = set()
        for e in bb.effects('OPEN_READ'):
            path = e.data['roles']['path']
            if cid(path) in seen:
                continue
            seen.add(cid(path))
            names = set()
            for a in flat(path):
                for x in walk(a):
                    if isinstance(x, Elem) and is_call(strip(x.container), 'os.listdir'):
                        names.add(cid(x))
            extra = []
            its = [i for i in bb.nodes('iteration') if any(
                isinstance(v, Elem) and cid(v) in names
                for v in flat(i.data.get('value')) if i.data.get('value') is not None)]
            heads = [p_ for i in its for p_, l in gg.pred[i.id] if gg.n(p_).kind == 'loop']
            back = gg.reachable_from(e.id, forward=False, blocked=heads)
            its = [i for i in its if i.id in back]
            fwd = gg.reachable_from([i.id for i in its], blocked=heads) if its else set()
            for n in bb.nodes('assume'):
                if n.id not in back or n.id not in fwd:
                    continue
                c2, p2 = unwrap_not(n.data['cond'], n.data['pol'])
                if not contains(c2, lambda x: cid(x) in names):
                    continue
                if contains(c2, lambda x: isinstance(x, Call) and x.fn in ('open', 'io.open')):
                    continue      # a test on the content read, not on the name
                if accepted_name_test(c2):
                    continue
                extra.append(n)
            ctx.ob('R09.6', '%s: every name in info/ ending in ".trashinfo" is an entry (no '
                            'further filter on the name)' % cmd, not extra, node=e,
                   message='%s skips entries of info/ by %s: trashed files with such names '
                           '(e.g. dot-files) silently disappear from %s'
                           % (cmd, extra[0].data['test_src'] if extra else '', cmd))
    # ---- R09.2
    b = ctx.graph('list')
    g = b.g
    outs = [(w, n, t) for w, n, t in location_uses(ctx, 'list')]
    ctx.require(outs, 'R09.2: list prints no entry line')
    reads = b.effects('OPEN_READ')
    for e in reads:
        info_ids = alt_ids(e.data['roles']['path'])
        mine = []
        for w, o, t in outs:
            opened = set()
            for y in walk(t):
                if isinstance(y, Call) and y.fn in ('open', 'io.open', 'codecs.open') and y.args:
                    opened |= alt_ids(y.args[0])
            if opened == info_ids and g.dominates(e.id, o.id):
                mine.append((o, t))
        ctx.ob('R09.2', 'each read .trashinfo has its stdout line', bool(mine), node=e,
               message='an entry that was read is never printed')
        for o, t in mine:
            fm = [x for x in flat(t) if isinstance(x, Fmt)]
            shape = bool(fm) and all(
                x.template.startswith('%s %s') and len(x.args) >= 2 and
                any(same(j[2], strip(x.args[1])) or cid(j[2]) in alt_ids(x.args[1])
                    for j in location_joins(x.args[1])) for x in fm)
            ctx.ob('R09.2', 'line is "<attribute> <join(volume, unquote(Path))>"', shape,
                   node=o, message='the line printed is %s' % short(t, 120))
            bad = []
            for c, pol, n in guards(b, o.id):
                if not g.dominates(e.id, n.id):
                    continue
                c2, p2 = unwrap_not(c, pol)
                if is_call(strip(c2), 'isinstance', 'type') or (
                        isinstance(strip(c2), Cmp) and is_call(strip(strip(c2).left), 'type')):
                    continue      # routing by the kind of an event object, not a test
                if has_strptime(c2) or contains(c2, lambda x: isinstance(x, Call) and (
                        x.fn in ('os.stat', 'os.path.exists', 'os.path.lexists',
                                 'os.path.getsize', 'datetime.timedelta'))):
                    bad.append(n)
            ctx.ob('R09.2', 'nothing but "read ok" and "Path parsed" guards the line',
                   not bad, node=o,
                   message='the line is printed only if %s holds (an entry present in the '
                           'trash can be hidden)' % (bad[0].data['test_src'] if bad else ''))
    # ---- R09.3
    for cmd in ('restore', 'rm', 'empty'):
        bb = ctx.graph(cmd)
        groups = {}
        for e in mutating_effects(bb, 'DELETE', 'MOVE'):
            p = e.data['roles'].get('src') if e.data['kind'] == 'MOVE' else \
                e.data['roles'].get('path')
            kinds, infos = classify(p)
            if kinds <= {'payload', 'info'}:
                groups.setdefault(infos, set()).update(kinds)
        ctx.require(groups, 'R09.3: %s touches no entry' % cmd)
        for infos, kinds in groups.items():
            ctx.ob('R09.3', '%s acts on the pair (payload, .trashinfo) of one listed entry' % cmd,
                   kinds == {'payload', 'info'}, construct=bb.func.qualname,
                   text='%s pair %s' % (cmd, sorted(kinds)),
                   message='%s handles only the %s of an entry' % (cmd, sorted(kinds)))
    # ---- R09.5 per volume both $topdir directories are considered, whatever the
    # verdict on the other one
    from .c20 import dir_kind
    for cmd in ('list', 'empty', 'rm'):
        bb = ctx.graph(cmd)
        gg = bb.g
        probes = [p_ for p_ in bb.probes() if p_.data['role'] == 'isdir' and p_.data['args']
                  and dir_kind(p_.data['args'][0]) == '$topdir/.Trash-$uid']
        ctx.ob('R09.5', '%s: the scanner looks at $topdir/.Trash-$uid' % cmd, bool(probes),
               construct=bb.func.qualname, text='alt dir probe',
               message='%s never considers $topdir/.Trash-$uid' % cmd)
        for p_ in probes:
            head = None
            for d in gg.dominators(p_.id):
                dn = gg.n(d)
                if dn.kind == 'loop' and dn.data.get('kind') == 'for' and dn.func == p_.func \
                        or (dn.kind == 'loop' and dn.data.get('kind') == 'for' and
                            gg.n(p_.id).stack[:len(dn.stack)] == dn.stack):
                    head = dn
                    break
            if head is None:
                continue
            its = [t for t, l in gg.succ[head.id] if gg.n(t).kind == 'iteration']
            skipped = its and feasible_path(bb, its, head.id, blocked=[p_.id]) is not None
            ctx.ob('R09.5', '%s: every volume iteration reaches the $topdir/.Trash-$uid test'
                   % cmd, not skipped, node=p_,
                   message='%s: for some verdict on $topdir/.Trash/$uid the scanner moves on '
                           'to the next volume without looking at $topdir/.Trash-$uid: '
                           'entries trashed there are not listed / purged' % cmd)
    # ---- R09.4
    scanners = {}
    for cmd in ('list', 'empty', 'rm'):
        bb = ctx.graph(cmd)
        fs_ = set()
        listed = set()            # trash directories whose info/ is listed
        for p_ in bb.probes():
            if p_.data['prim'] != 'os.listdir' or not p_.data['args']:
                continue
            for parts in join_part_lists(p_.data['args'][0]):
                if len(parts) >= 2 and is_const(strip(parts[-1]), 'info'):
                    for d_ in parts[:-1]:
                        listed |= alt_ids(d_)

        def names_listed_dir(x):
            comps = []
            if isinstance(x, Obj):
                comps = list(x.fields.values())
                if '_tuple' in x.fields:
                    for t_ in flat(x.fields['_tuple']):
                        if isinstance(t_, TupleT):
                            comps.extend(t_.items)
            elif isinstance(x, TupleT):
                comps = list(x.items)
            return any(alt_ids(c_) & listed for c_ in comps)
        for y in bb.nodes('yield'):
            v = y.data.get('value')
            alts_ = flat(v) if v is not None else []
            if len(alts_) != 1:
                continue          # a loop that hands on events of an inner generator
            for a in alts_:
                # (event, <record of a trash directory: path and volume>)
                if isinstance(a, TupleT) and len(a.items) == 2 and any(
                        names_listed_dir(x) for x in flat(a.items[1])):
                    fs_.add(y.data.get('gen'))
        scanners[cmd] = fs_
    core = scanners['list'] & scanners['empty'] & scanners['rm']
    for cmd in ('list', 'empty', 'rm'):
        ctx.ob('R09.4', '%s takes its trash directories from the shared scanner' % cmd,
               bool(core) and (scanners[cmd] - scanners['list'] == set()),
               construct=ctx.graph(cmd).func.qualname, text='scanner %s' % sorted(
                   map(str, scanners[cmd])),
               message='%s enumerates trash directories through %s, list through %s'
                       % (cmd, sorted(map(str, scanners[cmd])),
                          sorted(map(str, scanners['list']))))
    # ---- R09.7 the readers take every $topdir/.Trash-$uid the writer uses: trash-put
    # creates / enters it following links (makedirs, no link test), so a reader may ask
    # "is it a directory" (following) but must not refuse it for being a symlink
    for cmd in ('list', 'empty', 'rm'):
        bb = ctx.graph(cmd)
        gg = bb.g
        seen_d = set()
        for e in bb.nodes('probe'):
            if e.data.get('prim') != 'os.listdir' or not e.data['args']:
                continue
            for a in flat(e.data['args'][0]):
                parts = join_parts(a)
                if not parts or len(parts) < 2 or not is_const(strip(parts[-1]), 'info'):
                    continue
                D = parts[0] if len(parts) == 2 else Call(JOIN[0], tuple(parts[:-1]), (), None)
                if dir_kind(D) != '$topdir/.Trash-$uid' or (e.id, cid(D)) in seen_d:
                    continue
                seen_d.add((e.id, cid(D)))
                d_ids = set(cid(x) for x in flat(D)) | {cid(D)}
                bad = None
                for c, pol, an in guards(bb, e.id):
                    for t in walk(c):
                        if isinstance(t, Call) and t.node is not None and \
                                gg.n(t.node).kind == 'probe' and t.args and \
                                not gg.n(t.node).data.get('follow') and \
                                (alt_ids(t.args[0]) & d_ids):
                            bad = gg.n(t.node)
                ctx.ob('R09.7', '%s accepts $topdir/.Trash-$uid whenever it is a directory '
                                '(following links, as trash-put does)' % cmd, bad is None,
                       node=e, message='%s lists $topdir/.Trash-$uid only after the no-follow '
                                       'test %s on it: a symlinked .Trash-$uid that trash-put '
                                       'fills is invisible to %s'
                                       % (cmd, bad.data['prim'] if bad else '', cmd))
    # ---- R09.8 what a command works on is what it selected: a generator of trash
    # directories / entries that is walked once (for the prompt, for a count) is exhausted
    # when it is walked again to do the work -- nothing is purged / listed, silently
    for cmd in ('empty', 'list', 'rm', 'restore'):
        bb = ctx.graph(cmd)
        tw = generators_iterated_twice(bb)
        ctx.ob('R09.8', '%s: no generator is iterated a second time after it was consumed'
               % cmd, not tw, node=(tw[0][1] if tw else next(iter(bb.nodes('loop')), None)),
               message='%s iterates the generator %s here after the loop at %s has consumed it: '
                       'the second walk sees nothing, so the entries selected are neither '
                       'purged nor listed although the command reports success'
                       % (cmd, tw[0][2] if tw else '', tw[0][0].loc() if tw else ''))
