"""C17 -- under file-system errors trash-put terminates, falls back, reports honestly."""
from .common import *  # noqa
from .putroles import PutRoles
from .c16 import exempt_reason

EXPLANATION = (
    'Fault discipline on the trash-put graph: (R17.1) every statically unbounded loop '
    '(while True / unbounded generator) whose continuation is reached from an exception '
    'handler retries only for an explicit allow-list of errors (an errno comparison or a '
    'specific OSError subclass) and the handler has a way out of the loop; "retry on every '
    'OSError" is a violation, also when the handler sits in a helper called in the loop '
    '("any error of the probe means the name is taken"); (R17.2) the OSError of every mutating primitive of an attempt '
    'is caught inside the attempt for that candidate (so the candidate loop proceeds to '
    'the next candidate or reports failure); (R17.3) an exceptional exit of WRITE/CLOSE -- '
    'the .trashinfo exists, possibly empty -- reaches DELETE(INFO) before another name is '
    'tried, the attempt ends or the error escapes; (R17.4) the candidate loop iterates a '
    'finite list.  Does not decide the behaviour for each concrete errno or pairs of '
    'faults beyond these edges.')
ASSUMPTIONS = ['A1-A6; faults are modelled as OSError raised by a primitive of the table']
MINIMUM = {'R17.1': 1, 'R17.2': 6, 'R17.3': 2, 'R17.4': 1, 'R17.5': 1, 'R17.6': 1}


# rules of sibling properties that are necessary conditions of this one too
# (evaluated by the sibling module on the same graphs, reported under this property)
ALSO = {'C01': {'R01.3': 'a failed move always releases the reservation',
         'R01.7': 'the copy+delete fallback is taken for EXDEV only'}}

def errno_allow(c, pol):
    """(cond, pol) restricts the caught error to listed errno values."""
    c, pol = unwrap_not(c, pol)
    if isinstance(c, Cmp) and contains(c.left, lambda x: isinstance(x, Attr) and
                                       x.name == 'errno'):
        if c.op in ('==', 'in') and pol:
            return True
        if c.op in ('!=', 'not in') and not pol:
            return True
    return False


def check(ctx):
    r = PutRoles(ctx)
    b, g = r.b, r.g
    region = r.body_nodes()
    # ---- R17.1
    loops = [n for n in b.nodes('loop') if n.data.get('unbounded') and n.id in region]
    ctx.require(loops, 'R17.1: no unbounded loop in trash-put (anchor vanished)')
    for lp in loops:
        ex = lp.data.get('exit')
        inside = g.reachable_from([t for t, _ in g.succ[lp.id]],
                                  blocked=[x for x in [ex] if x is not None])
        # (handlers of helpers called in the loop count too: "any error of the probe
        # means the name is taken" retries as blindly as a bare except around the create)
        handlers = [n for n in b.nodes('handler') if n.id in inside and
                    g.dominates(lp.id, n.id) and not n.data.get('finally')]
        if not handlers:
            ctx.ob('R17.1', 'unbounded loop without exception-driven retry', True, node=lp)
        allow_all = [n.id for n in b.nodes('assume') if n.id in inside and
                     g.dominates(lp.id, n.id) and
                     errno_allow(n.data['cond'], n.data['pol'])]
        for h in handlers:
            classes = h.data.get('classes') or ('BaseException',)
            specific = all(c in ('FileExistsError', 'FileNotFoundError', 'IsADirectoryError',
                                 'NotADirectoryError', 'InterruptedError') for c in classes)
            allow = allow_all
            outside = [n.id for n in b.nodes() if not g.dominates(lp.id, n.id)]
            retry = g.reachable_from(h.id, blocked=set(allow) | set(outside))
            back = any(lp.id == t for x in retry for t, l in g.succ[x]) or lp.id in retry
            retries_blindly = back and not specific
            ctx.ob('R17.1', 'the handler retries only for an allow-list of errors',
                   not retries_blindly, node=h,
                   message='every %s from the exclusive creation means "try another name": '
                           'under a persistent EACCES/ENOSPC/EROFS the loop never terminates'
                           % '/'.join(classes))
            if h.func != lp.func:
                continue
            way_out = False
            for n in b.nodes('raise'):
                if not g.dominates(h.id, n.id):
                    continue
                for cls, how, target, soft in n.data.get('raises', []):
                    # caught by a handler that was set up outside the loop (or by
                    # nobody): the retry loop is left
                    # (handler nodes are created when their try statement is entered:
                    # an id below the loop head's means "entered before the loop")
                    if how == 'escape' or target < lp.id:
                        way_out = True
            if ex is not None and ex in g.reachable_from(h.id, blocked=[lp.id] + outside):
                way_out = True
            ctx.ob('R17.1', 'the handler has a failing exit from the loop', way_out, node=h,
                   message='no branch of the handler leaves the retry loop')
    # ---- R17.2
    attempt = r.attempt_region()
    ctx.require(attempt, 'R17.2: candidate loop not found')
    for e in r.muts:
        for cls, how, target, soft in e.data.get('raises', []):
            if soft:
                continue
            inside = how != 'escape' and target in attempt
            if not inside and exempt_reason(b, r, e, cls):
                ctx.ob('R17.2', '%s of %s is exempt (%s)' % (cls, e.data['kind'],
                                                             exempt_reason(b, r, e, cls)),
                       True, node=e)
                continue
            ctx.ob('R17.2', 'the %s of %s is converted inside the attempt' % (cls, e.data['kind']),
                   inside, node=e,
                   message='an %s of %s (%s) is not handled inside the attempt for that '
                           'candidate: the remaining candidates are not tried and trash-put '
                           'aborts' % (cls, e.data['kind'], e.data['prim']))
    # re-raises inside the attempt must be caught inside it too
    for n in b.nodes('raise'):
        if n.id in attempt and not n.data.get('belief'):
            for cls, how, target, soft in n.data.get('raises', []):
                if cls in ('OSError',) or cls.endswith('Error') and cls not in (
                        'ValueError', 'TypeError', 'RuntimeError', 'NotImplementedError',
                        'AssertionError'):
                    inside = how != 'escape' and target in attempt
                    ctx.ob('R17.2', 'a re-raised %s is converted inside the attempt' % cls,
                           inside, node=n,
                           message='%s re-raised at %s leaves the attempt unhandled'
                                   % (cls, n.loc()))
    # ---- R17.3
    for o in r.opens:
        info_ids = alt_ids(r.info_of(o))
        fd = cid(o.data['result'])
        rels = [d.id for d in r.deletes if alt_ids(d.data['roles']['path']) == info_ids]
        for x in [w for w in r.writes + r.closes if cid(w.data['roles']['fd']) == fd]:
            exc = exc_successors(b, x.id)
            if not exc:
                continue
            leak = [t for t in (g.exit, g.escape, o.id)
                    if feasible_path(b, exc, t, rels) is not None]
            ctx.ob('R17.3', 'a failed %s of the .trashinfo releases the reservation'
                   % x.data['kind'], not leak, node=x,
                   message='when %s fails the (possibly empty) .trashinfo is left behind '
                           'and %s' % (x.data['prim'],
                                       'another name is tried' if o.id in leak else
                                       'the run ends without removing it'))
    # ---- R17.6 a too-long name is really shortened: the retried name is
    # X[0:len(X) - len(A)] + A (same X, same A), whose length is len(X)
    seen_shapes = set()
    for o in r.opens:
        for parts in join_part_lists(r.info_of(o)):
            for alt in flat(parts[-1]):
                top = strip(alt)
                if not (isinstance(top, Bin) and top.op == '+'):
                    continue
                for l in flat(top.left):
                    sliced = [x for x in walk(l) if isinstance(x, Sub) and
                              isinstance(x.index, Slice) and x.index.upper is not None and
                              contains(x.index.upper, lambda y: is_call(y, 'len'))]
                    if not sliced or cid(l) in seen_shapes:
                        continue
                    seen_shapes.add(cid(l))
                    ok = isinstance(l, Sub) and len(sliced) == 1 and cid(sliced[0]) == cid(l)
                    if ok:
                        def truncating(up):
                            up = strip(up)
                            return isinstance(up, Bin) and up.op == '-' and \
                                is_call(strip(up.left), 'len') and \
                                is_call(strip(up.right), 'len') and \
                                alt_ids(strip(up.left).args[0]) == alt_ids(l.base) and \
                                alt_ids(strip(up.right).args[0]) == alt_ids(top.right)

                        def whole(up):
                            up = strip(up)
                            return is_call(up, 'len') and \
                                alt_ids(up.args[0]) == alt_ids(l.base)
                        ups = flat(l.index.upper)
                        # (the bound may be chosen by a conditional expression: the whole
                        # name when it fits, the truncating bound when it was too long)
                        ok = (l.index.lower is None or is_const(strip(l.index.lower), 0)) and \
                            any(truncating(u) for u in ups) and \
                            all(truncating(u) or whole(u) for u in ups)
                    ctx.ob('R17.6', 'the name retried after ENAMETOOLONG is '
                                    'X[:len(X)-len(suffix)] + suffix', ok, node=o,
                           message='after "name too long" the next name is built from %s: it '
                                   'is not guaranteed to be shorter, and ENAMETOOLONG is on '
                                   'the retry allow-list, so trash-put can loop forever'
                                   % short(l, 140))
    # ---- R17.5 fault handling deletes nothing but the reservation
    infos = set()
    for o in r.opens:
        infos |= alt_ids(r.info_of(o))
    for d in r.deletes:
        in_handler = last_dominating(b, d.id, 'handler') is not None
        ctx.ob('R17.5', 'error handling deletes only the reserved .trashinfo',
               alt_ids(d.data['roles']['path']) <= infos, node=d,
               message='%strash-put deletes %s, which is not the .trashinfo it reserved: after '
                       'a partial copy+delete of a cross-device move this destroys the only '
                       'remaining copy' % ('in an error handler ' if in_handler else '',
                                           short(d.data['roles']['path'], 80)))
    # ---- R17.4
    for cl in r.candidate_loops:
        it = cl.data.get('iter')
        ctx.ob('R17.4', 'the candidate loop iterates a finite list',
               cl.data.get('kind') == 'unrolled' or
               (it is not None and all(isinstance(a, (ListObj, TupleT)) for a in flat(it))),
               node=cl, message='candidates come from %s' % short(it))
