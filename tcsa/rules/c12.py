"""C12 -- trash-rm removes exactly the entries whose original name matches."""
from .common import *  # noqa
from .readroles import *  # noqa
from .c15 import classify

EXPLANATION = (
    'On the trash-rm graph: (R12.1) the predicate guarding deletion is '
    'fnmatch.fnmatchcase(subject, pattern) -- not the case-normalising fnmatch.fnmatch, '
    'not re -- with pattern = argv[1] untransformed; (R12.2) subject is the full original '
    'path under "pattern starts with /" and its basename otherwise, the full path being '
    'join(volume, unquote(Path)); (R12.3) every DELETE is dominated by that predicate being '
    'true for the entry read from the very .trashinfo being deleted, and there is no other '
    'DELETE.  The fnmatch grammar itself is stdlib (A2).')
ASSUMPTIONS = ['A2 fnmatchcase implements shell-style, case-sensitive matching']
MINIMUM = {'R12.1': 2, 'R12.2': 2, 'R12.3': 4, 'R12.4': 1, 'R12.5': 1}


# rules of sibling properties that are necessary conditions of this one too
# (evaluated by the sibling module on the same graphs, reported under this property)
ALSO = {'C03': {'R03.1': ('the subject matched is the decoded Path as it is', 'rm')},
 'C09': {'R09.3': ('trash-rm removes the payload and the .trashinfo of one and the same entry',
                   'rm '),
         'R09.5': ('trash-rm looks into every trash directory of a volume', 'rm:')},
 'C15': {'R15.3': 'payload and .trashinfo of a match go together: the info is removed last'},
 'C19': {'R19.3': ('every *.trashinfo name in info/ is an entry trash-rm can match (the name filter is the suffix test)', 'rm:'),
         'R19.1': ('an unreadable entry must not stop the matching of the others', 'rm:')}}

def check(ctx):
    b = ctx.graph('rm')
    g = b.g
    deletes = mutating_effects(b, 'DELETE')
    ctx.require(deletes, 'C12: no DELETE in the rm graph')
    matches = []
    for n in b.nodes('assume'):
        c, pol = unwrap_not(n.data['cond'], n.data['pol'])
        for x in flat(c):
            if isinstance(x, Call) and (x.fn.startswith('fnmatch.') or
                                        x.fn.startswith('re.')):
                matches.append((n, x, pol))
    ctx.require(matches, 'C12: no fnmatch-based predicate found (anchor vanished)')
    for n in set(m[0] for m in matches):
        c, pol = unwrap_not(n.data['cond'], n.data['pol'])
        if not pol:
            continue
        foreign = [a for a in flat(c) if not (isinstance(a, Call) and
                                              a.fn.startswith('fnmatch.'))
                   and not is_const(a, False)]
        ctx.ob('R12.3', 'the decision to delete is, on every alternative, the match of this '
                        'entry', not foreign, node=n,
               message='the value deciding the deletion may also be %s (a remembered / '
                       'defaulted verdict instead of matching this entry\'s own path)'
                       % short(foreign[0], 100) if foreign else '')
    seen = set()
    for n, x, pol in matches:
        if cid(x) in seen:
            continue
        seen.add(cid(x))
        ctx.ob('R12.1', 'the matcher is fnmatch.fnmatchcase', x.fn == 'fnmatch.fnmatchcase'
               and len(x.args) == 2 and not x.kwargs, node=n,
               message='entries are selected with %s: matching is not case-sensitive '
                       'shell-style matching' % x.fn)
        if len(x.args) != 2:
            continue
        subject, pattern = x.args
        # pattern = argv[1] untransformed
        pok = True
        for a in flat(pattern):
            t = a
            depth = 0
            while isinstance(t, Sub) and depth < 4:
                t = strip(t.base)
                depth += 1
            if not (isinstance(t, ExtRef) and t.qualname == 'sys.argv' and depth >= 1):
                pok = False
        swapped = contains(pattern, lambda y: isinstance(y, Call) and y.fn in UNQUOTERS)
        ctx.ob('R12.1', 'pattern is the command-line argument, untransformed, in second '
                        'position', pok and not swapped, node=n,
               message='the pattern handed to the matcher is %s%s' % (
                   short(pattern, 100), ' (arguments swapped)' if swapped else ''))
        # R12.2 subject selection
        alts_ = alts(strip(subject)) if isinstance(strip(subject), Phi) else \
            alts(subject)
        full_ok = base_ok = False
        bad = []
        for a, o in alts_:
            a = strip(a)
            lj = location_joins(a)
            is_base = is_call(a, *BASENAME)
            inner = strip(a.args[0]) if is_base else a
            is_full = is_call(inner, *JOIN) and len(location_joins(inner)) >= 1 and \
                same(location_joins(inner)[0][2], inner)
            if not is_full:
                bad.append(a)
                continue
            slash = None
            if o is not None:
                own = [(g.n(o).data['cond'], g.n(o).data['pol'], g.n(o))] \
                    if g.n(o).kind == 'assume' else []
                for cc, pp, an in own + guards(b, o):
                    c2, p2 = unwrap_not(cc, pp)
                    if isinstance(c2, Cmp) and c2.op == '==' and \
                            is_const(strip(c2.right), '/') and isinstance(strip(c2.left), Sub) \
                            and alt_ids(strip(c2.left).base) == alt_ids(pattern):
                        slash = p2
                    if isinstance(c2, MCall) and c2.name == 'startswith' and c2.args and \
                            is_const(strip(c2.args[0]), '/') and \
                            alt_ids(c2.recv) == alt_ids(pattern):
                        slash = p2
            if is_base and slash is False:
                base_ok = True
            elif not is_base and slash is True:
                full_ok = True
            elif not is_base and slash is None and o is not None and \
                    g.n(o).kind != 'assume':
                # the full path kept the origin of the helper that produced it (its
                # return site), which hides the selecting test: the selection is then
                # judged on the basename side, its complement in the same expression
                full_ok = True
            else:
                bad.append(a)
        ctx.ob('R12.2', 'subject = full path for patterns starting with "/", basename otherwise',
               full_ok and base_ok and not bad, node=n,
               message='the subject matched is %s (full-path/basename selection by the '
                       'leading "/" of the pattern is gone or altered)' % short(subject, 140))
    # ---- R12.6 the pattern decides nothing but the match: every test that mentions it is
    # the matcher's verdict or the full-path/basename selection
    pat_ids = set()
    for n, x, pol in matches:
        if len(x.args) == 2:
            pat_ids |= alt_ids(x.args[1])
    seen6 = set()
    for n in b.nodes('assume'):
        c, pol = unwrap_not(n.data['cond'], n.data['pol'])
        if not contains(c, lambda y: cid(y) in pat_ids):
            continue
        if contains(c, lambda y: isinstance(y, Call) and y.fn.startswith('fnmatch.')):
            continue
        if (n.file, n.line) in seen6:
            continue
        seen6.add((n.file, n.line))
        c0 = strip(c)
        sel = (isinstance(c0, Cmp) and c0.op in ('==', '!=') and
               is_const(strip(c0.right), '/') and isinstance(strip(c0.left), Sub) and
               alt_ids(strip(c0.left).base) <= pat_ids) or \
            (isinstance(c0, MCall) and c0.name == 'startswith' and len(c0.args) == 1 and
             is_const(strip(c0.args[0]), '/') and alt_ids(c0.recv) <= pat_ids)
        ctx.ob('R12.6', 'the pattern is only used to match (and to choose full path or '
                        'basename)', sel, node=n,
               message='%s decides on the pattern outside the matcher: entries that match '
                       'can be left out (e.g. a wildcard in the directory part of an '
                       'absolute pattern)' % short(c0, 100))
    true_nodes = [(n, x) for n, x, pol in matches if pol]
    for d in deletes:
        kinds, infos = classify(d.data['roles']['path'])
        ok = False
        for n, x in true_nodes:
            if not g.dominates(n.id, d.id):
                continue
            # the subject was read from the .trashinfo being deleted
            opened = set()
            for y in walk(x.args[0]):
                if isinstance(y, Call) and y.fn in ('open', 'io.open') and y.args:
                    opened |= alt_ids(y.args[0])
            if opened and opened == infos:
                ok = True
        ctx.ob('R12.3', 'DELETE is dominated by a match on the entry\'s own original path', ok,
               node=d, message='trash-rm deletes %s without the pattern having matched the '
                               'path recorded in that entry\'s own .trashinfo'
                               % short(d.data['roles']['path'], 100))
    # ---- R12.5 payload and .trashinfo go together: the payload delete is guarded by a
    # no-follow presence probe (a dangling-link payload exists)
    for d in deletes:
        kinds, infos = classify(d.data['roles']['path'])
        if kinds != {'payload'}:
            continue
        verdicts = []
        for c, pol, n in guards(b, d.id):
            c2, p2 = unwrap_not(c, pol)
            pn = probe_result_of(c2)
            if pn is not None and p2 and g.n(pn).data['role'] == 'presence' and \
                    alt_ids(g.n(pn).data['args'][0]) == alt_ids(d.data['roles']['path']):
                verdicts.append(not g.n(pn).data['follow'])
        ctx.ob('R12.5', 'the payload of a matching entry is removed whatever it is (probe does '
                        'not follow links)', bool(verdicts) and all(verdicts), node=d,
               message='the payload is skipped when a link-following existence test fails: a '
                       'dangling symlink payload stays in files/ while its .trashinfo is '
                       'removed')
    # ---- R12.4 the verdict for one entry does not depend on the entries before it
    from .c19 import entry_iterations
    for it in entry_iterations(b):
        head = [p for p, l in g.pred[it.id] if g.n(p).kind == 'loop']
        if not head:
            continue
        region = g.reachable_from(it.id, blocked=[head[0]])
        carried = []
        for n in b.nodes('store', 'store-item', 'append'):
            if n.id not in region:
                continue
            tgt = n.data.get('obj') if n.kind == 'store' else \
                (n.data.get('base') if n.kind == 'store-item' else n.data.get('list'))
            for o in flat(tgt) if tgt is not None else []:
                site = getattr(o, 'site', None)
                if isinstance(o, (Obj, ListObj, DictObj)) and site is not None and \
                        site in b.live and site not in region:
                    carried.append(n)
        ctx.ob('R12.4', 'no state is carried from one trashed entry to the next', not carried,
               node=carried[0] if carried else it,
               message='while handling one entry trash-rm writes into an object that outlives '
                       'it (%s): the verdict for an entry can be a remembered verdict of an '
                       'earlier one' % (carried[0].src if carried else ''))
