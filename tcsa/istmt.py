"""Statements: control flow, loops (incl. generator weaving), try/except."""
import ast

from .icore import Env, Frame, TryRec, HandlerRec, LoopRec
from .iexpr import truth
from .model import canon_exc, EXC_PARENT, ClassInfo
from .terms import *  # noqa

UNROLL_LIMIT = 8


def assigned_names(stmts):
    out = set()
    for s in stmts:
        for n in ast.walk(s):
            if isinstance(n, ast.Name) and isinstance(n.ctx, ast.Store):
                out.add(n.id)
            elif isinstance(n, (ast.FunctionDef, ast.ClassDef)):
                out.add(n.name)
    return out


class StmtMixin(object):
    def exec_block(self, stmts):
        for s in stmts:
            if self.cur is None:
                break
            m = getattr(self, 'st_' + type(s).__name__, None)
            if m is None:
                self.diag('unsupported-stmt', type(s).__name__, s)
                self.emit('stmt', s)
                continue
            m(s)

    # ------------------------------------------------------------ env merging
    def merge_envs(self, envs):
        if not envs:
            return {}
        if len(envs) == 1:
            return dict(envs[0])
        out = {}
        keys = set()
        for e in envs:
            keys.update(e)
        for k in keys:
            vals = [e[k] for e in envs if k in e]
            first = vals[0]
            if all(v is first for v in vals[1:]):
                out[k] = first
            else:
                out[k] = join(*vals)
        return out

    # ---------------------------------------------------------------- simple
    def st_Pass(self, s):
        pass

    def st_Expr(self, s):
        if isinstance(s.value, ast.Constant):
            return
        self.ev(s.value)

    def st_Import(self, s):
        for a in s.names:
            name = a.asname or a.name.split('.')[0]
            mod = a.name if a.asname else a.name.split('.')[0]
            if mod in self.p.modules or mod == 'trashcli' or mod.startswith('trashcli.'):
                self.frame.env.vars[name] = ModRef(mod)
            else:
                self.frame.env.vars[name] = ExtRef(mod)
        n = self.emit('import', s)
        self.route_raise(n, ['ImportError'], soft=True)

    def st_ImportFrom(self, s):
        base = self.p._abs_module(self.frame.module, s.module, s.level)
        from .model import SIX_MOVES
        for a in s.names:
            name = a.asname or a.name
            if base in self.p.modules:
                v = self.lookup_global(self.p.modules[base], a.name)
                if v is None and (base + '.' + a.name) in self.p.modules:
                    v = ModRef(base + '.' + a.name)
                self.frame.env.vars[name] = v if v is not None else Unknown('import')
            else:
                q = base + '.' + a.name
                self.frame.env.vars[name] = ExtRef(SIX_MOVES.get(q, q))
        n = self.emit('import', s)
        self.route_raise(n, ['ImportError'], soft=True)

    def st_FunctionDef(self, s):
        from .model import FuncInfo
        fi = FuncInfo(s.name, self.frame.qualname + '.' + s.name, self.frame.module, s,
                      None)
        self.frame.env.vars[s.name] = FuncRef(fi, self.frame.env)

    def st_ClassDef(self, s):
        c = self.p._index_class(self.frame.module, s, None)
        self.frame.env.vars[s.name] = ClsRef(c)

    def st_Global(self, s):
        self.diag('global-stmt', 'global statement', s)

    st_Nonlocal = st_Global

    def st_Delete(self, s):
        for t in s.targets:
            if isinstance(t, ast.Name):
                self.frame.env.vars.pop(t.id, None)

    def st_Assert(self, s):
        t, f, rt, rf, c = self.ev_cond(s.test)
        if f is not None:
            self.cur = f
            n = self.emit('raise', s, {'classes': ['AssertionError'], 'explicit': True,
                                       'belief': True})
            self.cur = None
        self.cur = t
        self.apply_refinements(rt)

    # ------------------------------------------------------------ assignment
    def st_Assign(self, s):
        v = self.ev(s.value)
        if self.cur is None:
            return
        for t in s.targets:
            if isinstance(t, ast.Name) and self.loops:
                # plain assignment of a local inside a loop (flags, counters): rules that
                # reason about loop-carried flags need the site
                self.emit('assign', s, {'target': t.id, 'value': v, 'aug': None})
            self.bind_target(t, v, s)

    def st_AnnAssign(self, s):
        if s.value is not None:
            v = self.ev(s.value)
            if self.cur is not None:
                self.bind_target(s.target, v, s)

    def st_AugAssign(self, s):
        from .iexpr import BINOPS
        if isinstance(s.target, ast.Name):
            cur = self.lookup_name(s.target.id) or Unknown('unbound')
        else:
            cur = self.ev(s.target)
        v = self.ev(s.value)
        op = BINOPS.get(type(s.op), '?')
        if isinstance(cur, ListObj) and op == '+':
            other = self.materialise(v, s)
            object.__setattr__(cur, 'open', True)
            for x in other.items:
                if not any(x is y or x == y for y in cur.items):
                    cur.items.append(x)
            self.emit('append', s, {'list': cur, 'value': other})
            return
        r = self.binop(op, cur, v)
        self.emit('assign', s, {'target': ast.unparse(s.target), 'value': r, 'aug': op})
        self.bind_target(s.target, r, s, quiet=True)

    def bind_target(self, t, v, stmt=None, quiet=False):
        if isinstance(t, ast.Name):
            self.frame.env.vars[t.id] = v
            return
        if isinstance(t, (ast.Tuple, ast.List)):
            n = len(t.elts)
            if not any(isinstance(el, ast.Starred) for el in t.elts) and \
                    not isinstance(v, (TupleT, Obj)) and self.cur is not None:
                # unpacking enforces the length of the sequence (ValueError otherwise)
                un = self.emit('unpack', stmt or t, {'value': v, 'arity': n})
            for i, el in enumerate(t.elts):
                if isinstance(el, ast.Starred):
                    self.bind_target(el.value, Elem(v), stmt)
                    continue
                self.bind_target(el, self.unpack_item(v, i, n), stmt)
            return
        if isinstance(t, ast.Attribute):
            base = self.ev(t.value)
            self.store_attr(base, t.attr, v, stmt or t)
            return
        if isinstance(t, ast.Subscript):
            base = self.ev(t.value)
            idx = self.ev(t.slice)
            for b in terms_of(base):
                if isinstance(b, DictObj):
                    b.entries.append((idx, v))
                elif isinstance(b, ListObj):
                    object.__setattr__(b, 'open', True)
                    b.items.append(v)
            self.emit('store-item', stmt or t, {'base': base, 'index': idx, 'value': v})
            return
        self.diag('unsupported-target', type(t).__name__, t)

    def unpack_item(self, v, i, n):
        if isinstance(v, Phi):
            return join(*[(self.unpack_item(a, i, n), o) for a, o in v.alts])
        if isinstance(v, TupleT) and len(v.items) == n:
            return v.items[i]
        if isinstance(v, ListObj) and not v.open and len(v.items) == n:
            return v.items[i]
        if isinstance(v, Obj) and '_tuple' in v.fields:
            return self.unpack_item(v.fields['_tuple'], i, n)
        if isinstance(v, Obj) and self.nt_fields(v.cls):
            f = self.nt_fields(v.cls)
            if len(f) == n:
                return v.fields.get(f[i], Unknown('unset'))
        return Sub(v, Const(i))

    def store_attr(self, base, name, v, stmt):
        strong = False
        f = self.frame.func
        for b, _ in alts(base):
            if isinstance(b, Obj):
                # strong update inside the constructor of that very object
                in_init = f is not None and f.name == '__init__' and \
                    len(alts(base)) == 1 and not self.loops
                if in_init or name not in b.fields:
                    b.fields[name] = v
                else:
                    b.fields[name] = join(b.fields[name], v)
            elif isinstance(b, ClsRef):
                self.global_cache[('class', b.cls.qualname, name)] = v
                b.cls.attrs.setdefault(name, ast.Constant(None))
        self.emit('store', stmt, {'obj': base, 'name': name, 'value': v})

    # --------------------------------------------------------------- branches
    def st_If(self, s):
        t, f, rt, rf, c = self.ev_cond(s.test)
        snap = dict(self.frame.env.vars)
        end = self.join_node(s, 'endif')
        envs = []
        if t is not None:
            self.cur = t
            self.apply_refinements(rt)
            self.exec_block(s.body)
            if self.cur is not None:
                envs.append(self.frame.env.vars)
                self.goto(end)
        self.frame.env.vars = dict(snap)
        if f is not None:
            self.cur = f
            self.apply_refinements(rf)
            self.exec_block(s.orelse)
            if self.cur is not None:
                envs.append(self.frame.env.vars)
                self.goto(end)
        self.frame.env.vars = self.merge_envs(envs) if envs else snap
        self.land(end)

    def st_Return(self, s):
        v = self.ev(s.value) if s.value is not None else NONE
        if self.cur is None:
            return
        n = self.emit('return', s, {'value': v})
        fr = self.frame
        if fr.ret_target is None:
            self.cur = None
            return
        if not fr.is_gen:
            fr.returns.append((v, n))
        self.goto(fr.ret_target)

    def st_Break(self, s):
        if self.loops:
            rec = self.loops[-1]
            if rec.brk_else is not None:
                rec.brk_else_envs.append(dict(self.frame.env.vars))
                self.goto(rec.brk_else, 'break')
                return
            rec.break_envs.append(dict(self.frame.env.vars))
            self.goto(rec.brk, 'break')
        else:
            self.cur = None

    def st_Continue(self, s):
        if self.loops:
            self.goto(self.loops[-1].cont, 'continue')
        else:
            self.cur = None

    # ------------------------------------------------------------------ raise
    def exc_classes_of(self, v):
        out = []
        for a in terms_of(v):
            if isinstance(a, Obj):
                out.append(a.cls.qualname)
            elif isinstance(a, ClsRef):
                out.append(a.cls.qualname)
            elif isinstance(a, Call) and canon_exc(a.fn) in EXC_PARENT:
                out.append(canon_exc(a.fn))
            elif isinstance(a, ExtRef) and canon_exc(a.qualname) in EXC_PARENT:
                out.append(canon_exc(a.qualname))
            elif isinstance(a, ExcVal):
                out.extend(a.classes)
            elif isinstance(a, Call):
                out.append(a.fn)
            else:
                out.append('Exception')
        return sorted(set(out))

    def st_Raise(self, s):
        if s.exc is None:
            classes = sorted(self.frame.caught[-1].arrived or
                             (self.frame.caught[-1].classes or ('Exception',))) \
                if self.frame.caught else ['Exception']
            n = self.emit('raise', s, {'classes': classes, 'explicit': True, 'reraise': True})
            self.route_raise(n, classes)
            self.cur = None
            return
        v = self.ev(s.exc)
        if self.cur is None:
            return
        classes = self.exc_classes_of(v)
        belief = self.is_belief_raise(s, classes)
        n = self.emit('raise', s, {'classes': classes, 'explicit': True, 'value': v,
                                   'belief': belief})
        self.route_raise(n, classes)
        self.cur = None

    def is_belief_raise(self, s, classes):
        """Programmer assertion: explicit raise of a generic builtin exception."""
        generic = {'Exception', 'ValueError', 'RuntimeError', 'TypeError',
                   'NotImplementedError', 'AssertionError'}
        return all(c in generic for c in classes)

    # -------------------------------------------------------------------- try
    def handler_classes(self, h):
        if h.type is None:
            return None
        v = self.ev(h.type)
        out = []
        items = v.items if isinstance(v, TupleT) else [v]
        for it in items:
            if isinstance(it, ClsRef):
                out.append(it.cls.qualname)
            elif isinstance(it, ExtRef):
                out.append(canon_exc(it.qualname))
            else:
                out.append('Exception')
        return tuple(out)

    def st_Try(self, s):
        recs = []
        for h in s.handlers:
            entry = self.new_node('handler', h, {'classes': None})
            hr = HandlerRec(self.handler_classes(h), entry, h)
            self.g.n(entry).data['classes'] = hr.classes
            recs.append(hr)
        tr = TryRec('try', recs)
        tr.finalbody = s.finalbody
        end = self.join_node(s, 'endtry')
        snap = dict(self.frame.env.vars)
        try_entry = self.emit('try', s)
        fin = None
        if s.finalbody:
            # exceptional entry into the finally block
            fin_entry = self.new_node('handler', s, {'classes': None, 'finally': True})
            fin = HandlerRec(None, fin_entry, s)
            self.handlers.append(TryRec('try', [fin]))
        self.handlers.append(tr)
        self.exec_block(s.body)
        self.handlers.pop()
        envs = []
        if self.cur is not None:
            self.exec_block(s.orelse)
            if self.cur is not None:
                envs.append(self.frame.env.vars)
                self.goto(end)
        for hr in recs:
            if not self.g.pred[hr.entry]:
                # handler never reached by a modelled raise: keep it alive from the
                # try entry so that its body is still analysed
                self.g.edge(try_entry, hr.entry, 'assumed')
                self.g.n(hr.entry).data['assumed'] = True
            self.cur = hr.entry
            self.frame.env.vars = dict(snap)
            # values assigned in the try body may or may not be visible
            if hr.node.name:
                cl = tuple(sorted(hr.arrived)) or (hr.classes or ('Exception',))
                self.frame.env.vars[hr.node.name] = ExcVal(tuple(cl), hr.entry)
            self.g.n(hr.entry).data['arrived'] = sorted(hr.arrived)
            self.frame.caught.append(hr)
            self.exec_block(hr.node.body)
            self.frame.caught.pop()
            if self.cur is not None:
                envs.append(self.frame.env.vars)
                self.goto(end)
        self.frame.env.vars = self.merge_envs(envs) if envs else snap
        if s.finalbody:
            self.handlers.pop()
            # normal path
            self.land(end)
            if self.cur is not None:
                self.exec_block(s.finalbody)
            normal_end = self.cur
            # exceptional path: run the finally body, then re-raise
            if self.g.pred[fin.entry]:
                self.cur = fin.entry
                keep = dict(self.frame.env.vars)
                self.exec_block(s.finalbody)
                if self.cur is not None:
                    n = self.emit('raise', s, {'classes': sorted(fin.arrived),
                                               'explicit': False, 'reraise': True,
                                               'finally': True})
                    self.route_raise(n, sorted(fin.arrived))
                self.frame.env.vars = keep
            self.cur = normal_end
        else:
            self.land(end)

    def st_With(self, s, first=0):
        managed = []
        for i, item in enumerate(s.items):
            if i < first:
                continue
            v = self.ev(item.context_expr)
            if self.cur is None:
                return
            if isinstance(v, GenObj) and self.is_contextmanager(v.func):
                # @contextmanager generator: its body runs up to the yield, the block
                # of the with statement runs *at* the yield (an exception of the block
                # is raised there, inside the generator's try statements), then the
                # rest of the generator
                def block(val, _i=i, _item=item):
                    if _item.optional_vars is not None:
                        self.bind_target(_item.optional_vars, val, s)
                    if _i + 1 < len(s.items):
                        self.st_With(s, _i + 1)
                    else:
                        self.exec_block(s.body)
                self.weave_cm(v, block, s)
                break
            managed.append(v)
            if item.optional_vars is not None:
                self.bind_target(item.optional_vars, v, s)
        else:
            self.exec_block(s.body)
        # leaving the block closes file objects (normal exit; the exceptional exit
        # closes too but a failing close there only masks the first error)
        for v in reversed(managed):
            fobj = self.file_object_of(v)
            if fobj is not None and fobj[1] and self.cur is not None:
                data = {'prim': 'file.close', 'kind': 'CLOSE', 'args': [], 'kwargs': {},
                        'roles': {'fd': fobj[0]}, 'implicit': True}
                n = self.emit('effect', s, data)
                self.route_raise(n, ['OSError'])

    # ------------------------------------------------------------------ loops
    def st_While(self, s):
        names = assigned_names(s.body)
        head = self.emit('loop', s, {'kind': 'while', 'test_src': ast.unparse(s.test)})
        if head is None:
            return
        exit_ = self.join_node(s, 'endloop')
        self.g.n(head).data['exit'] = exit_
        self.widen(names, head)
        pre = dict(self.frame.env.vars)
        t, f, rt, rf, c = self.ev_cond(s.test)
        self.g.n(head).data['cond'] = c
        self.g.n(head).data['unbounded'] = f is None
        if f is not None:
            self.g.edge(f, exit_)
        rec = LoopRec(exit_, head)
        after, after_envs = None, []
        if s.orelse:
            after = self.join_node(s, 'after-while-else')
            rec.brk_else, rec.brk_else_envs = after, after_envs
        self.loops.append(rec)
        self.loop_depth = getattr(self, 'loop_depth', 0) + 1
        self.loop_heads = getattr(self, 'loop_heads', []) + [head]
        self.cur = t
        self.apply_refinements(rt)
        tgt = getattr(self, '_else_target', None)
        self._else_target = None
        try:
            self.exec_block(s.body)
        finally:
            self._else_target = tgt
        if self.cur is not None:
            self.g.edge(self.cur, head, 'back')
        self.loop_depth -= 1
        self.loop_heads = self.loop_heads[:-1]
        self.loops.pop()
        self.frame.env.vars = self.merge_envs([pre, self.frame.env.vars] + rec.break_envs)
        self.close_loopvars(names, head)
        self.land(exit_)
        if s.orelse:
            if self.cur is not None:
                self.exec_block(s.orelse)
            if self.cur is not None:
                after_envs.append(self.frame.env.vars)
                self.goto(after)
            if after_envs:
                self.frame.env.vars = self.merge_envs(after_envs)
            self.land(after)

    def widen(self, names, head):
        for nme in names:
            if nme in self.frame.env.vars:
                old = self.frame.env.vars[nme]
                if isinstance(old, (Obj, ListObj, DictObj, FuncRef, ClsRef, GenObj)):
                    continue
                self.frame.env.vars[nme] = join(old, LoopVar(nme, head))

    def close_loopvars(self, names, head):
        """After a loop: a variable whose value at the loop head (LoopVar) only flows
        through the body unchanged or is overwritten -- never computed *from* -- is, after
        the loop, one of the values assigned to it (before or inside the loop)."""
        for nme in names:
            v = self.frame.env.vars.get(nme)
            if not isinstance(v, Phi):
                continue
            me = LoopVar(nme, head)
            rest = [(a, o) for a, o in v.alts if a != me]
            if len(rest) == len(v.alts) or not rest:
                continue
            if any(contains(a, lambda x: x == me) for a, o in rest):
                continue
            self.frame.env.vars[nme] = join(*rest)

    def st_For(self, s):
        it = self.ev(s.iter)
        if self.cur is None:
            return
        names = assigned_names(s.body) | assigned_names([ast.Expr(s.target)]) \
            if False else assigned_names(s.body)

        def per_item(val):
            tgt = getattr(self, '_else_target', None)
            self._else_target = None      # loops nested in the body are not this loop
            try:
                self.bind_target(s.target, val, s)
                self.exec_block(s.body)
            finally:
                self._else_target = tgt
        if not s.orelse:
            self.iterate(it, per_item, names, s)
            return
        # for ... else: the else block runs when the loop is exhausted, a break skips it
        after = self.join_node(s, 'after-for-else')
        envs = []
        self._else_target = (after, envs)
        try:
            self.iterate(it, per_item, names, s)
        finally:
            self._else_target = None
        if self.cur is not None:
            self.exec_block(s.orelse)
        if self.cur is not None:
            envs.append(self.frame.env.vars)
            self.goto(after)
        if envs:
            self.frame.env.vars = self.merge_envs(envs)
        self.land(after)

    def tag_else(self, rec, keep=False):
        """The loop being set up belongs to a for/while statement with an else clause."""
        tgt = getattr(self, '_else_target', None)
        if tgt is not None:
            rec.brk_else, rec.brk_else_envs = tgt

    def iterate(self, it, per_item, names, node):
        """Run per_item(val) for the elements of ``it`` at the current point."""
        if self.cur is None:
            return
        if isinstance(it, Phi) and len(it.alts) == 1:
            it = it.alts[0][0]
        if isinstance(it, Phi):
            iterables = [a for a in it.terms()]
            special = [a for a in iterables if isinstance(a, (GenObj, ListObj, TupleT, Obj))
                       or self.unwrap_enumerate(a) is not None
                       or (isinstance(a, Call) and a.fn.startswith(('itertools.chain', 'itertools.starmap')))]
            if special:
                start = self.cur
                end = self.join_node(node, 'end-iter-alternatives')
                snap = dict(self.frame.env.vars)
                envs = []
                # which alternative is iterated is tied to the site that handed it over
                sites = [o if o is not None else getattr(a, 'site', None)
                         for a, o in it.alts]
                group = tuple(sorted(set(x for x in sites if x is not None))) \
                    if all(x is not None for x in sites) and \
                    len(set(sites)) == len(sites) else None
                for a, st in zip(iterables, sites):
                    self.cur = start
                    self.frame.env.vars = dict(snap)
                    self.emit('dispatch', node, {'target': a,
                                                 'alt_site': st if group else None,
                                                 'group': group})
                    self.iterate(a, per_item, names, node)
                    if self.cur is not None:
                        envs.append(self.frame.env.vars)
                        self.goto(end)
                self.frame.env.vars = self.merge_envs(envs) if envs else snap
                self.land(end)
                return
        if isinstance(it, Call) and it.fn == 'itertools.chain':
            for part in it.args:          # one iterable after the other
                if self.cur is None:
                    break
                self.iterate(part, per_item, names, node)
            return
        if isinstance(it, Call) and it.fn == 'itertools.chain.from_iterable' and it.args:
            def inner_iter(part):
                self.iterate(part, per_item, names, node)
            return self.iterate(it.args[0], inner_iter, names, node)
        if isinstance(it, Call) and it.fn == 'itertools.starmap' and len(it.args) == 2:
            fn = it.args[0]

            def per_star(val):
                while isinstance(val, Phi) and len(val.alts) == 1:
                    val = val.alts[0][0]
                if isinstance(val, TupleT):
                    argv = list(val.items)
                elif isinstance(val, Phi) and all(isinstance(a, TupleT) for a in val.terms()) \
                        and len(set(len(a.items) for a in val.terms())) == 1:
                    ts = list(val.terms())
                    argv = [join(*[a.items[i] for a in ts]) for i in range(len(ts[0].items))]
                else:
                    self.diag('unsupported-expr', 'starmap over elements of unknown shape',
                              node)
                    argv = [Elem(val)]
                per_item(self.call(fn, argv, {}, node))
            return self.iterate(it.args[1], per_star, names, node)
        inner = self.unwrap_enumerate(it)
        if inner is not None:
            src, start = inner

            def per2(val, _src=src):
                per_item(TupleT((Index(_src), val)))
            self.emit('enumerate', node, {'source': src, 'start': start})
            self.iterate(src, per2, names, node)
            return
        if isinstance(it, GenObj):
            return self.weave(it, per_item, names, node)
        if isinstance(it, Obj):
            mem = self.find_member(it.cls, '__iter__')
            if mem and mem[0] == 'method':
                inner = self.call_function(mem[2], [it], {}, node)
                return self.iterate(inner, per_item, names, node)
            if '_tuple' in it.fields:
                return self.iterate(it.fields['_tuple'], per_item, names, node)
            f = self.nt_fields(it.cls)
            if f:
                return self.iterate(TupleT(tuple(it.fields.get(x, Unknown('unset'))
                                                 for x in f)), per_item, names, node)
        if isinstance(it, TupleT) or (isinstance(it, ListObj) and not it.open):
            items = list(it.items)
            if len(items) <= UNROLL_LIMIT:
                return self.unroll(items, per_item, node)
        return self.generic_loop(it, per_item, names, node)

    def unwrap_enumerate(self, it):
        if isinstance(it, Call) and it.fn == 'enumerate' and it.args:
            start = it.args[1] if len(it.args) > 1 else dict(it.kwargs).get('start', Const(0))
            return it.args[0], start
        return None

    def unroll(self, items, per_item, node):
        exit_ = self.join_node(node, 'endloop')
        self.emit('loop', node, {'kind': 'unrolled', 'exit': exit_, 'n': len(items)})
        envs = []
        for i, val in enumerate(items):
            if self.cur is None:
                break
            nxt = self.join_node(node, 'next-iteration')
            rec = LoopRec(exit_, nxt)
            self.tag_else(rec, keep=True)
            self.loops.append(rec)
            self.emit('iteration', node, {'index': i, 'value': val})
            per_item(val)
            self.loops.pop()
            envs.extend(rec.break_envs)
            if self.cur is not None:
                self.goto(nxt)
            self.land(nxt)
        if self.cur is not None:
            envs.append(self.frame.env.vars)
            self.goto(exit_)
        if envs:
            self.frame.env.vars = self.merge_envs(envs)
        self.land(exit_)

    def element_of(self, it):
        if isinstance(it, ListObj):
            if it.items:
                return strip_origins(join(*it.items))
            return Elem(it)
        if isinstance(it, DictObj):
            if it.entries:
                return strip_origins(join(*[k for k, _ in it.entries]))
        return Elem(it)

    def generic_loop(self, it, per_item, names, node):
        head = self.emit('loop', node, {'kind': 'for', 'iter': it})
        exit_ = self.join_node(node, 'endloop')
        self.g.n(head).data['exit'] = exit_
        if isinstance(it, Call) and (
                it.fn in ('itertools.count', 'itertools.cycle') or
                (it.fn == 'itertools.repeat' and len(it.args) < 2 and
                 'times' not in dict(it.kwargs))):
            # an endless iterator: the loop ends only by break / return / raise
            self.g.n(head).data['unbounded'] = True
        self.widen(names, head)
        pre = dict(self.frame.env.vars)
        self.g.edge(head, exit_, 'exhausted')
        rec = LoopRec(exit_, head)
        self.tag_else(rec)
        self.loops.append(rec)
        self.loop_depth = getattr(self, 'loop_depth', 0) + 1
        self.loop_heads = getattr(self, 'loop_heads', []) + [head]
        self.emit('iteration', node, {'value': self.element_of(it)})
        per_item(self.element_of(it))
        if self.cur is not None:
            self.g.edge(self.cur, head, 'back')
        self.loop_depth -= 1
        self.loop_heads = self.loop_heads[:-1]
        self.loops.pop()
        self.frame.env.vars = self.merge_envs([pre, self.frame.env.vars] + rec.break_envs)
        self.close_loopvars(names, head)
        self.land(exit_)

    def is_contextmanager(self, func):
        node = getattr(func, 'node', None)
        return any(ast.unparse(d).split('.')[-1] == 'contextmanager'
                   for d in getattr(node, 'decorator_list', []))

    def weave_cm(self, gen, block, node):
        """with <@contextmanager generator>: run the generator body, the block at its
        yield with the generator's handlers in force."""
        object.__setattr__(gen, 'consumed', gen.consumed + 1)
        self.stats['generators_woven'] += 1
        gframe = gen.frame
        if gen.func in self.active:
            self.diag('recursion', 'recursive context manager %s cut' % gen.func.qualname,
                      node)
            return block(Unknown('recursive-contextmanager'))
        cframe = self.frame
        cloops = self.loops
        builder = self
        yielded = [0]

        def on_yield(val, ynode):
            yielded[0] += 1
            gctx = (builder.frame, builder.loops)
            builder.frame = cframe
            builder.loops = cloops
            try:
                block(val)
            finally:
                builder.frame, builder.loops = gctx
            return NONE

        gframe.yield_handler = on_yield
        gen_end = self.join_node(node, 'contextmanager-exit')
        gframe.ret_target = gen_end
        self.emit('call', node, {'func': gen.func, 'args': dict(gframe.env.vars),
                                 'contextmanager': True})
        saved = (self.frame, self.loops)
        self.frame = gframe
        self.loops = []
        self.active.append(gen.func)
        try:
            self.exec_block(gen.func.node.body)
            if self.cur is not None:
                self.goto(gen_end)
        finally:
            self.active.pop()
            self.frame, self.loops = saved
        self.land(gen_end)
        if yielded[0] == 0 and self.cur is not None:
            self.diag('unsupported-stmt', 'context manager %s never yields (%d)'
                      % (gen.func.qualname, yielded[0]), node)

    def tagged_alternatives(self, val):
        """[(tuple, origin site)] when ``val`` is a choice between tuples that start with
        distinct constant tags, each handed over by its own site; else None."""
        if not isinstance(val, Phi) or len(val.alts) < 2:
            return None
        out, tags, sites = [], set(), set()
        for a, o in val.alts:
            if o is None or not isinstance(a, TupleT) or not a.items or \
                    not isinstance(a.items[0], Const) or \
                    not isinstance(a.items[0].value, str):
                return None
            tags.add(a.items[0].value)
            sites.add(o)
            out.append((a, o))
        if len(tags) != len(out) or len(sites) != len(out):
            return None
        return out

    def weave(self, gen, per_item, names, node):
        """Attach the body of generator ``gen`` to the consuming loop."""
        object.__setattr__(gen, 'consumed', gen.consumed + 1)
        if gen.consumed > 1:
            self.diag('generator-reused', 'generator %s iterated more than once'
                      % gen.func.qualname, node)
        self.stats['generators_woven'] += 1
        gframe = gen.frame
        if gen.func in self.active:
            self.diag('recursion', 'recursive generator %s cut' % gen.func.qualname, node)
            return self.generic_loop(Unknown('recursive-generator'), per_item, names, node)
        exit_ = self.join_node(node, 'endloop')
        head = self.emit('loop', node, {'kind': 'generator', 'gen': gen.func.qualname,
                                        'exit': exit_, 'genobj': gen,
                                        'gen_args': dict(gframe.env.vars)})
        self.widen(names, head)
        pre = dict(self.frame.env.vars)
        cframe = self.frame
        chandlers = list(self.handlers)
        cloops = self.loops
        rec = LoopRec(exit_, None)
        self.tag_else(rec)
        builder = self

        ynodes = []

        def on_yield(val, ynode):
            y = builder.emit('yield', ynode, {'value': val, 'gen': gen.func.qualname})
            if y is None:
                return NONE
            ynodes.append(y)
            gctx = (builder.frame, builder.handlers, builder.loops)
            resume = builder.join_node(ynode, 'resume-after-yield')
            r = LoopRec(exit_, resume)
            r.brk_else, r.brk_else_envs = rec.brk_else, rec.brk_else_envs
            r.break_envs = rec.break_envs
            builder.frame = cframe
            builder.handlers = list(chandlers)
            builder.loops = cloops + [r]
            try:
                tagged = builder.tagged_alternatives(val)
                if tagged:
                    # a tagged union ('kind', payload) handed over by different sites:
                    # the consumer's body once per alternative, tied to the site
                    start = builder.cur
                    snap = dict(cframe.env.vars)
                    envs = []
                    group = tuple(sorted(o for a, o in tagged))
                    for a, o in tagged:
                        builder.cur = start
                        cframe.env.vars = dict(snap)
                        builder.emit('dispatch', ynode, {'target': a, 'alt_site': o,
                                                         'group': group})
                        per_item(a)
                        if builder.cur is not None:
                            envs.append(cframe.env.vars)
                            builder.goto(resume)
                    cframe.env.vars = builder.merge_envs(envs) if envs else snap
                else:
                    per_item(val)
                    if builder.cur is not None:
                        builder.goto(resume)
            finally:
                builder.frame, builder.handlers, builder.loops = gctx
            builder.land(resume)
            return NONE

        gframe.yield_handler = on_yield
        gen_end = self.join_node(node, 'generator-exhausted')
        gframe.ret_target = gen_end
        self.emit('call', node, {'func': gen.func, 'args': dict(gframe.env.vars),
                                 'generator': True})
        saved = (self.frame, self.handlers, self.loops)
        self.frame = gframe
        self.handlers = list(chandlers)
        self.loops = []
        self.active.append(gen.func)
        self.loop_depth = getattr(self, 'loop_depth', 0) + 1
        self.loop_heads = getattr(self, 'loop_heads', []) + [head]
        try:
            self.exec_block(gen.func.node.body)
            if self.cur is not None:
                self.goto(gen_end)
        finally:
            self.loop_depth -= 1
            self.loop_heads = self.loop_heads[:-1]
            self.active.pop()
            self.frame, self.handlers, self.loops = saved
        self.land(gen_end)
        if self.cur is not None:
            self.goto(exit_, 'exhausted')
        # (a generator that cannot finish without having yielded: the loop body ran)
        ran = bool(ynodes) and gen_end not in self.g.reachable_from([head], blocked=ynodes)
        self.frame.env.vars = self.merge_envs(([] if ran else [pre]) +
                                              [self.frame.env.vars] + rec.break_envs)
        self.close_loopvars(names, head)
        self.land(exit_)
