"""C11 -- purging touches nothing outside files/ and info/, follows no symlink."""
from .common import *  # noqa

EXPLANATION = (
    'Frame analysis of the trash-empty and trash-rm effect graphs: (R11.3) the only '
    'mutating primitives reachable from the two entry scripts are DELETEs; (R11.1) they '
    'are os.remove/os.unlink/os.rmdir, and shutil.rmtree only as the fallback handler of '
    'a failed os.remove of the same path or under a no-follow "is not a link" guard; '
    '(R11.2) every DELETE argument is join(D/info, e), pbc(join(D/info, e)) or '
    'join(D/files, e) with e an element of os.listdir of that very directory -- never an '
    'original location, a resolved path or a user string; (R11.4) no recursive walk feeds '
    'a DELETE.  Decides which primitives are called on which path terms; does not decide '
    'that os.remove / shutil.rmtree themselves never follow links (stdlib, A2).')
ASSUMPTIONS = [
    'A2: os.remove unlinks a symlink, fails on a directory; shutil.rmtree refuses a '
    'symlink and does not follow links inside the tree',
    'elements of os.listdir contain no path separator',
]
MINIMUM = {'R11.1': 4, 'R11.2': 4, 'R11.3': 2}
ALLOWED_DELETE = {'os.remove', 'os.unlink', 'os.rmdir', 'shutil.rmtree'}
LINK_SAFE = {'os.remove', 'os.unlink', 'os.rmdir'}


def check(ctx):
    for cmd in ('empty', 'rm'):
        b = ctx.graph(cmd)
        g = b.g
        muts = mutating_effects(b)
        ctx.require(muts, 'C11: no mutating effect at all in the %s graph' % cmd)
        others = [e for e in muts if e.data['kind'] != 'DELETE']
        ctx.ob('R11.3', '%s: the only mutating effect kind is DELETE' % cmd, not others,
               node=others[0] if others else None,
               construct=None if others else b.func.qualname, text='' if not others else None,
               message='%s performs %s (%s): purging must only delete trash entries'
                       % (cmd, others[0].data['kind'] if others else '',
                          others[0].data['prim'] if others else ''))
        for e in others[1:]:
            ctx.ob('R11.3', '%s: the only mutating effect kind is DELETE' % cmd, False, node=e,
                   message='%s performs %s (%s)' % (cmd, e.data['kind'], e.data['prim']))
        for e in [x for x in muts if x.data['kind'] == 'DELETE']:
            prim = e.data['prim']
            path = e.data['roles'].get('path')
            # ---- R11.1 idiom
            ok = prim in ALLOWED_DELETE
            why = ''
            if ok and prim not in LINK_SAFE:
                ok, why = rmtree_is_fallback(b, e)
            ctx.ob('R11.1', 'DELETE primitive cannot follow a symlink', ok, node=e,
                   message='%s: %s on %s may act through a symbolic link: %s'
                           % (cmd, prim, short(path, 80), why or 'primitive not in the '
                              'accepted set'))
            # ---- R11.2 provenance
            bad = []
            for a in flat(path):
                i = match_pbc(a)
                if i is not None:
                    if not all(info_entry(x) is not None for x in flat(i)):
                        bad.append(a)
                elif info_entry(a) is None and files_entry(a) is None:
                    bad.append(a)
            ctx.ob('R11.2', 'DELETE argument derives from a listing of info/ or files/ only',
                   not bad, node=e,
                   message='%s deletes %s, which is not an entry listed from the trash '
                           'directory\'s own info/ or files/' %
                           (cmd, short(bad[0], 140) if bad else ''),
                   sample={'path': short(path, 140)})
            # ---- R11.4
            walked = contains(path, lambda x: isinstance(x, Call) and x.fn in (
                'os.walk', 'glob.glob', 'glob.iglob', 'os.scandir'))
            resolved = contains(path, lambda x: isinstance(x, Call) and x.fn in (
                'os.path.realpath', 'os.readlink', 'os.path.abspath'))
            ctx.ob('R11.4', 'no traversal / resolution feeds a DELETE', not (walked or resolved),
                   node=e, message='%s: DELETE argument %s comes from a recursive walk or a '
                                   'link-resolving call' % (cmd, short(path, 100)))


def rmtree_is_fallback(b, e):
    """rmtree is acceptable when (a) every way into it comes from the exception
    handler of an os.remove/os.unlink of the same path, or (b) it is guarded by a
    no-follow test that the path is not a link."""
    g = b.g
    path = e.data['roles'].get('path')
    pid = alt_ids(path)
    h = last_dominating(b, e.id, 'handler')
    if h is not None:
        srcs = [(s, l) for s, l in g.pred[h] if s in b.live]
        if srcs and all(l and l.startswith('exc:') and g.n(s).kind == 'effect' and
                        g.n(s).data['prim'] in ('os.remove', 'os.unlink') and
                        alt_ids(g.n(s).data['roles'].get('path')) == pid
                        for s, l in srcs):
            # nothing between handler entry and rmtree may re-bind: same term => fine
            return True, ''
    for c, pol, n in guards(b, e.id):
        c2, pol2 = unwrap_not(c, pol)
        pn = probe_result_of(c2)
        if pn is None:
            continue
        pd = g.n(pn).data
        if pd['prim'] == 'os.path.islink' and not pol2 and \
                alt_ids(pd['args'][0]) == pid:
            return True, ''
    follow = [n for c, pol, n in guards(b, e.id)
              if probe_result_of(unwrap_not(c, pol)[0]) is not None and
              g.n(probe_result_of(unwrap_not(c, pol)[0])).data['prim'] == 'os.path.isdir']
    if follow:
        return False, 'chosen by os.path.isdir (%s), which follows links' % follow[0].loc()
    return False, 'not the fallback of a failed os.remove of the same path'
