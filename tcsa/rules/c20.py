"""C20 -- all commands read a trash directory the same way."""
from .common import *  # noqa
from .readroles import *  # noqa

EXPLANATION = (
    'Agreement of the sibling readers, by provenance: (R20.1) every original location that '
    'list prints, rm matches and restore scopes/restores originates at the decode call of '
    'one and the same Path parser function, every date that list prints, restore sorts '
    'by/prints and empty compares at the strptime of one DeletionDate parser; (R20.2) all '
    'three compute join(V, unquote(Path)); (R20.3) per kind of trash directory (home via '
    'XDG_DATA_HOME, home via HOME, $topdir/.Trash/$uid, $topdir/.Trash-$uid, --trash-dir) '
    'the base V is the same class of term in the scanner (list/rm) and in restore\'s '
    'lister; (R20.4) first-line semantics and formats are shared (one parser).  Does not '
    'decide equality of printed values for every .trashinfo content beyond "same '
    'functions, same constants, same base".')
ASSUMPTIONS = ['os.path.join keeps an absolute second argument (so only V matters for '
               'relative Paths)']
MINIMUM = {'R20.1': 6, 'R20.2': 3, 'R20.3': 8}


def dir_kind(D):
    kinds = set()
    for d in flat(D):
        d0 = strip(d.args[0]) if is_call(d, 'os.path.normpath') else d
        txt = []
        for x in walk(d0):
            if isinstance(x, Fmt):
                txt.append(x.template)
            elif isinstance(x, Const) and isinstance(x.value, str):
                txt.append(x.value)
        t = ' '.join(txt)
        if 'XDG_DATA_HOME' in t:
            kinds.add('home(XDG_DATA_HOME)')
        elif '.local/share/Trash' in t:
            kinds.add('home(HOME)')
        elif '.Trash-' in t:
            kinds.add('$topdir/.Trash-$uid')
        elif '.Trash' in t:
            kinds.add('$topdir/.Trash/$uid')
        elif contains(d0, lambda x: isinstance(x, MCall) and x.name == 'parse_args'):
            kinds.add('--trash-dir')
        else:
            kinds.add('other:' + short(d0, 40))
    return '|'.join(sorted(kinds))


def base_class(V, D):
    """How the base V relates to the trash directory D."""
    out = set()
    dparts = set()
    for d in flat(D):
        d0 = strip(d.args[0]) if is_call(d, 'os.path.normpath') else d
        jp = join_parts(d0)
        if jp:
            dparts |= alt_ids(jp[0])
        dparts_full = alt_ids(d0)
    for v in flat(V):
        if is_const(v, '/'):
            out.add("constant '/'")
        elif cid(v) in dparts:
            out.add('$topdir (first component of the directory)')
        elif contains(v, lambda x: isinstance(x, Call) and x.fn == 'os.path.abspath') or \
                isinstance(v, LoopVar) or contains(v, lambda x: isinstance(x, LoopVar)):
            out.add('volume_of(directory)')
        else:
            out.add('other:' + short(v, 40))
    return ' | '.join(sorted(out))


def check(ctx):
    loc_funcs = {}
    date_funcs = {}
    bases = {}     # kind -> {cmd: set(base class)}
    for cmd in ('list', 'rm', 'restore'):
        b = ctx.graph(cmd)
        uses = location_uses(ctx, cmd)
        ctx.require(uses, 'C20: %s uses no original location (anchor vanished)' % cmd)
        for what, node, term in uses:
            for u in unquote_calls(term):
                f = b.g.n(u.node).func if u.node is not None else '?'
                loc_funcs.setdefault(f, set()).add('%s %s' % (cmd, what))
            ljs = [j for a in flat(term) for j in location_joins(a)]
            ctx.ob('R20.2', '%s %s is join(V, unquote(Path))' % (cmd, what), bool(ljs),
                   node=node, message='%s: the %s is %s, not join(base, decoded Path)'
                                      % (cmd, what, short(term, 100)))
            for V, P, j in ljs:
                for o in [y for y in walk(P) if isinstance(y, Call) and y.fn == 'open']:
                    for ia in flat(o.args[0]):
                        D = info_entry(ia)
                        if D is not None:
                            bases.setdefault(dir_kind(D), {}).setdefault(cmd, set()).add(
                                base_class(V, D))
    for cmd in ('list', 'restore', 'empty'):
        b = ctx.graph(cmd)
        for what, node, term in date_uses(ctx, cmd):
            for sp in strptime_calls(term):
                if contains(sp.args[0], lambda x: is_const(x, 'TRASH_DATE')):
                    continue
                f = b.g.n(sp.node).func if sp.node is not None else '?'
                date_funcs.setdefault(f, set()).add('%s %s' % (cmd, what))
    ctx.ob('R20.1', 'one Path parser feeds every use of an original location',
           len(loc_funcs) == 1, construct='parse_trashinfo', text='Path parsers',
           message='original locations are decoded in %d different functions: %s'
                   % (len(loc_funcs), {k: sorted(v) for k, v in loc_funcs.items()}))
    ctx.ob('R20.1', 'one DeletionDate parser feeds every use of a date',
           len(date_funcs) == 1, construct='parse_trashinfo', text='DeletionDate parsers',
           message='deletion dates are parsed in %d different functions: %s'
                   % (len(date_funcs), {k: sorted(v) for k, v in date_funcs.items()}))
    for f, who in list(loc_funcs.items()) + list(date_funcs.items()):
        for w in sorted(who):
            ctx.ob('R20.1', '%s goes through %s' % (w, f), True, construct=f, text=w)
    for kind in sorted(bases):
        per = bases[kind]
        classes = set()
        for cmd, cl in per.items():
            classes |= cl
        agree = len(classes) == 1
        ctx.ob('R20.3', 'same base for relative Paths in %s for %s' % (kind, sorted(per)),
               agree, construct='trash directory kind %s' % kind,
               text='; '.join('%s: %s' % (c, ' / '.join(sorted(per[c]))) for c in sorted(per)),
               message='a relative Path in %s is resolved against different bases: %s'
                       % (kind, {c: sorted(per[c]) for c in sorted(per)}),
               sample={c: sorted(per[c]) for c in per})
        for cmd in per:
            ctx.ob('R20.3', '%s reads %s' % (cmd, kind), True,
                   construct=kind, text=cmd)
