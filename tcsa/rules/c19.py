"""C19 -- a malformed trash entry never prevents the well-formed ones from being handled."""
from .common import *  # noqa
from .readroles import *  # noqa

EXPLANATION = (
    'Exception-escape analysis per reader (list, restore, rm, empty).  The per-entry '
    'region is one iteration of the loop whose variable is an element of '
    'os.listdir(<trash dir>/info).  (R19.1) no exception originating at a read / probe / '
    'parse primitive inside that region (OSError of open/read/stat, UnicodeDecodeError of '
    'the strict text-mode read, ValueError of strptime/int, the repo\'s ParseError) may be '
    'caught outside it or escape: it has to be handled within the iteration, so that the '
    'next entry is processed; errors of the mutating primitives (a payload that cannot be '
    'deleted or moved) are faults, not malformed entries, and are not in scope; (R19.2) '
    'the key of every sort/min/max over entries is total: a key alternative that may be '
    'None next to non-None ones makes sorted() raise TypeError for one undated entry among '
    'dated ones; (R19.3) names in info/ without the .trashinfo suffix are filtered or '
    'warned about per name; (R19.6) no raise the programmer marked as "cannot happen" '
    '(constant-message RuntimeError/ValueError in a defensive branch) is live below a '
    'directory listing: the producers\' tags and classes are all handled.  Output equality "as if the malformed ones were absent" is '
    'not decided.')
ASSUMPTIONS = ['text-mode open() uses strict error handling (locale codec)',
               'A5: KeyError/IndexError/AttributeError are not modelled']
MINIMUM = {'R19.1': 8, 'R19.2': 1, 'R19.3': 2, 'R19.4': 4, 'R19.5': 4, 'R19.6': 4}


# rules of sibling properties that are necessary conditions of this one too
# (evaluated by the sibling module on the same graphs, reported under this property)
ALSO = {'C10': {'R10.1': 'an undated / unparsable entry is kept, it does not abort the purge',
         'R10.2': 'an undated / unparsable entry is kept, it does not abort the purge'}}

def entry_iterations(b):
    """iteration nodes binding an element of os.listdir(<D>/info)."""
    out = []
    for n in b.nodes('iteration'):
        v = n.data.get('value')
        if v is None:
            continue
        for a in flat(v):
            if isinstance(a, Elem) and is_call(strip(a.container), 'os.listdir'):
                d = strip(strip(a.container).args[0])
                parts = join_parts(d) or []
                if parts and is_const(strip(parts[-1]), 'info'):
                    out.append(n)
    return out


def check(ctx):
    for cmd in ('list', 'restore', 'rm', 'empty'):
        b = ctx.graph(cmd)
        g = b.g
        its = entry_iterations(b)
        ctx.require(its, 'R19.1: %s has no loop over the entries of info/' % cmd)
        for it in its:
            head = [p for p, l in g.pred[it.id] if g.n(p).kind == 'loop']
            if not head:
                continue
            head = head[0]
            region = g.reachable_from(it.id, blocked=[head])
            any_raise = False
            for nid in sorted(region):
                n = g.n(nid)
                if n.kind == 'effect' and n.data['kind'] not in ('OPEN_READ',):
                    continue          # faults of mutating primitives: out of scope
                if n.kind == 'raise' and n.data.get('belief'):
                    continue
                for cls, how, target, soft in n.data.get('raises', []):
                    if soft:
                        continue
                    if cls in ('EOFError', 'KeyboardInterrupt', 'SystemExit'):
                        continue
                    if n.kind == 'arity-error':
                        continue
                    any_raise = True
                    inside = how != 'escape' and target in region
                    if not inside and how != 'escape':
                        # caught outside the iteration: the loop is abandoned
                        pass
                    ctx.ob('R19.1', '%s: %s from %s is handled within the entry\'s iteration'
                           % (cmd, cls, n.kind), inside, node=n,
                           construct='%s per-entry region: %s' % (cmd, n.func),
                           text='%s %s' % (cls, n.src or ''),
                           message='%s: a %s raised by %s while handling one trash entry %s: '
                                   'one unreadable / undecodable / odd .trashinfo aborts the '
                                   'whole command and the well-formed entries after it are '
                                   'not handled'
                                   % (cmd, cls, (n.src or n.kind)[:60],
                                      'escapes as a traceback' if how == 'escape' else
                                      'is caught outside the loop over the entries'))
            if not any_raise:
                ctx.ob('R19.1', '%s: entry iteration without fallible primitive' % cmd, True,
                       node=it)
        # ---- R19.4 what is learnt from one entry does not leak into the next
        leaks = {}
        for it in its:
            head = [p for p, l in g.pred[it.id] if g.n(p).kind == 'loop']
            if not head:
                continue
            region = g.reachable_from(it.id, blocked=[head[0]])
            for n, o in carried_state_writes(b, region):
                leaks.setdefault((n.func, n.src), n)
        ctx.ob('R19.4', '%s: handling one entry writes nothing that outlives its iteration' % cmd,
               not leaks, node=list(leaks.values())[0] if leaks else its[0],
               message='%s: while handling one .trashinfo the code writes into an object that '
                       'lives across entries (%s): a value parsed from one entry (e.g. its '
                       'date) can be taken for the next, malformed one' % (
                           cmd, list(leaks)[0][1] if leaks else ''))
        # ---- R19.2
        for s in b.nodes('sort'):
            key = s.data['key']
            al = flat(key)
            nones = [a for a in al if is_const(a, None)]
            others = [a for a in al if not is_const(a, None)]
            partial = bool(nones) and bool(others)
            # tuple keys: a component that may be None is reached only when all earlier
            # components compared equal -- total only if an earlier component is the test
            # "that value is None" (the (x is None, x) idiom)
            for a in al:
                if not isinstance(a, TupleT):
                    continue
                for i, comp in enumerate(a.items):
                    cal = flat(comp)
                    if not (any(is_const(x, None) for x in cal) and
                            any(not is_const(x, None) for x in cal)):
                        continue
                    shielded = False
                    for prev in a.items[:i]:
                        p0, _ = unwrap_not(prev, True)
                        if isinstance(p0, Cmp) and p0.op in ('is', 'is not', '==', '!=') and \
                                is_const(strip(p0.right), None) and \
                                alt_ids(p0.left) == alt_ids(comp):
                            shielded = True
                    if not shielded:
                        partial = True
            ctx.ob('R19.2', '%s: sort key is total (never None next to comparable values)'
                   % cmd, not partial, node=s,
                   message='%s sorts entries by %s, which is None for an entry without a '
                           '(valid) DeletionDate: with two or more entries in scope '
                           'sorted() raises TypeError and nothing is offered'
                           % (cmd, short(key, 100)))
    # ---- R19.2b every date that is compared / sorted comes from formats that agree on
    # timezone awareness (naive vs aware datetimes do not compare)
    for cmd in ('restore', 'empty'):
        for what, node, term in date_uses(ctx, cmd):
            fmts = set()
            for sp in strptime_calls(term):
                f = strip(sp.args[1]) if len(sp.args) > 1 else None
                if isinstance(f, Const) and isinstance(f.value, str):
                    fmts.add(f.value)
                for a in flat(sp.args[1]) if len(sp.args) > 1 else []:
                    if isinstance(a, Const) and isinstance(a.value, str):
                        fmts.add(a.value)
            aware = set(('%z' in f or '%Z' in f) for f in fmts)
            ctx.ob('R19.2', '%s %s: all accepted date formats agree on timezone awareness'
                   % (cmd, what), len(aware) <= 1, node=node,
                   message='%s: dates parsed with %s are mixed in one %s: an offset-aware '
                           'datetime does not compare with a naive one (TypeError aborts the '
                           'command for every entry)' % (cmd, sorted(fmts), what))
    # ---- R19.5 undecodable bytes fail at the read (inside the entry's handler), they are
    # not smuggled into the text as lone surrogates that fail later, at the print
    for cmd in ('list', 'restore', 'rm', 'empty'):
        b = ctx.graph(cmd)
        seen5 = set()
        for e in b.effects('OPEN_READ'):
            if (e.file, e.line) in seen5:
                continue
            seen5.add((e.file, e.line))
            kw = e.data['kwargs']
            err = strip(kw['errors']) if 'errors' in kw else None
            ok = err is None or is_const(err, 'strict', 'replace', 'ignore',
                                         'backslashreplace', None)
            ctx.ob('R19.5', '%s: a .trashinfo is decoded strictly (or lossily), never with '
                            'surrogate escapes' % cmd, ok, node=e,
                   message='%s opens .trashinfo files with errors=%s: undecodable bytes in a '
                           'Path become lone surrogates; the entry then parses, and printing '
                           'it raises UnicodeEncodeError outside the per-entry handler -- one '
                           'foreign entry aborts the listing of all the others'
                           % (cmd, short(err)))
    # ---- R19.3
    for cmd in ('list', 'restore', 'rm', 'empty'):
        b = ctx.graph(cmd)
        reads = b.effects('OPEN_READ')
        ok = True
        for e in reads:
            guarded = established(
                b, e.id, lambda c2, p2: (isinstance(c2, MCall) and c2.name == 'endswith' and
                                         p2 and bool(c2.args) and
                                         is_const(strip(c2.args[0]), '.trashinfo')) or
                (isinstance(c2, Cmp) and c2.op == '==' and p2 and
                 is_const(strip(c2.right), 'trashinfo')))
            ok = ok and guarded
        ctx.ob('R19.3', '%s: only *.trashinfo names are read as entries' % cmd,
               ok and bool(reads), construct=b.func.qualname, text='suffix filter',
               message='%s reads names in info/ that do not end in .trashinfo' % cmd)
    # ---- R19.6 a branch the programmer believes cannot be taken ("raise RuntimeError(
    # 'Unexpected ...')") must indeed be dead for everything a directory listing can
    # produce: constant folding leaves such a raise out of the graph when the producer's
    # tags / classes are all handled; a live one means some name or content found in a
    # trash directory aborts the command
    for cmd in ('list', 'restore', 'rm', 'empty'):
        b = ctx.graph(cmd)
        g = b.g
        listings = [n.id for n in b.nodes('probe') if n.data.get('prim') == 'os.listdir']
        live_beliefs = [n for n in b.nodes('raise') if n.data.get('belief') and
                        n.id in b.live and any(g.dominates(l, n.id) for l in listings)]
        # (live = on a run-consistent path: a tag chosen by a conditional expression and
        # tested by an if/elif chain leaves the else branch in the graph but not on any
        # consistent path)
        live_beliefs = [n for n in live_beliefs
                        if feasible_path(b, [g.entry], n.id) is not None]
        ctx.ob('R19.6', '%s: no "cannot happen" raise is reachable from a directory listing'
               % cmd, not live_beliefs, construct=b.func.qualname, text='belief raises',
               node=live_beliefs[0] if live_beliefs else None,
               message='%s: %s can be reached for some entry found in a trash directory: the '
                       'producer hands over a case the consumer believes impossible, one odd '
                       'entry aborts the whole command'
                       % (cmd, (live_beliefs[0].src or '')[:80] if live_beliefs else ''))
