"""Role discovery on the trash-put graph (no function names hard-coded: roles are
found from effects, argparse declarations and data flow)."""
from .common import *  # noqa
from ..model import AnalysisError


class PutRoles(object):
    def __init__(self, ctx):
        b = ctx.graph('put')
        self.b = b
        self._cache = {}
        g = b.g
        self.g = g
        opts = argparse_options(b)
        self.opts = opts
        pos = [o for o in opts if o['flags'] and not o['flags'][0].startswith('-')]
        ctx.require(pos, 'put: no positional file arguments declared (anchor vanished)')
        self.files_dest = pos[0]['dest']
        # per-argument loop: a loop iterating the positional option value
        self.arg_loops = []
        for n in b.nodes('loop'):
            it = n.data.get('iter')
            if it is not None and any(is_option_value(a, self.files_dest) for a in flat(it)):
                self.arg_loops.append(n)
        ctx.require(self.arg_loops, 'put: loop over the file arguments not found')
        self.arg_loop = self.arg_loops[0]
        self.arg_iteration = [t for t, l in g.succ[self.arg_loop.id]
                              if g.n(t).kind == 'iteration']
        ctx.require(self.arg_iteration, 'put: body of the argument loop not found')
        self.arg_iteration = self.arg_iteration[0]
        self.ARG = g.n(self.arg_iteration).data['value']
        self.arg_ids = alt_ids(self.ARG)
        # effects
        muts = mutating_effects(b)
        self.muts = muts
        self.opens = [e for e in muts if e.data['kind'] == 'OPEN_FD']
        self.writes = [e for e in muts if e.data['kind'] == 'WRITE']
        self.closes = [e for e in muts if e.data['kind'] == 'CLOSE']
        self.moves = [e for e in muts if e.data['kind'] == 'MOVE']
        self.deletes = [e for e in muts if e.data['kind'] == 'DELETE']
        self.mkdirs = [e for e in muts if e.data['kind'] == 'CREATE_DIR']
        # loops over the candidate trash directories: they lie inside the argument loop and
        # enclose an exclusive creation.  When the candidates come as alternative lists
        # (a one-element literal for --trash-dir, a built list otherwise) the body is
        # analysed once per alternative, a short literal as an unrolled loop.
        self.candidate_loops = []
        seen = set()
        for anchor in (self.opens or self.moves or self.muts[:1]):
            for d in g.dominators(anchor.id):
                n = g.n(d)
                if n.kind == 'loop' and n.id != self.arg_loop.id and n.id not in seen and \
                        g.dominates(self.arg_loop.id, n.id) and \
                        n.data.get('kind') in ('for', 'unrolled') and \
                        not n.data.get('unbounded') and \
                        anchor.id in self.loop_body(n):
                    # (a loop over an endless counter is the name-retry loop, not the
                    # loop over candidate trash directories)
                    seen.add(n.id)
                    self.candidate_loops.append(n)

    def loop_body(self, cl):
        """Nodes inside the body of loop cl (not what follows its exit)."""
        g = self.g
        its = [n.id for n in self.b.nodes('iteration')
               if (n.file, n.line, n.stack) == (cl.file, cl.line, cl.stack) and
               g.dominates(cl.id, n.id)]
        blocked = [cl.id, self.arg_loop.id] + \
            ([cl.data['exit']] if cl.data.get('exit') is not None else [])
        key = ('body', cl.id)
        if key not in self._cache:
            self._cache[key] = set(x for x in g.reachable_from(its, blocked=blocked)
                                   if g.dominates(cl.id, x))
        return self._cache[key]

    def candidates_for(self, node_id):
        """Candidate objects that can be the current candidate when node_id runs: the
        elements iterated by the candidate loop (copy) whose body contains it; all
        candidates when the structure is not recognised."""
        g = self.g
        out = []
        for cl in self.candidate_loops:
            if node_id not in self.loop_body(cl):
                continue
            for n in self.b.nodes('iteration'):
                if (n.file, n.line, n.stack) == (cl.file, cl.line, cl.stack) and \
                        g.dominates(cl.id, n.id) and n.data.get('value') is not None:
                    for a in flat(n.data['value']):
                        if isinstance(a, Obj) and 'trash_dir_path' in a.fields and \
                                not any(a is x for x in out):
                            out.append(a)
        if not out:
            out = [o for n, o in candidate_sites(self.b)]
        return out

    def attempt_region(self):
        """Nodes of one attempt (one candidate trash directory) -- union over the
        alternative candidate loops."""
        g = self.g
        out = set()
        for cl in self.candidate_loops:
            out |= self.loop_body(cl)
        return out

    def is_arg(self, t):
        return cid(t) in self.arg_ids

    def mentions_arg(self, t):
        return contains(t, self.is_arg)

    def info_of(self, o):
        return o.data['roles']['path']

    def body_nodes(self):
        """Nodes of one iteration of the argument loop."""
        return self.g.reachable_from(self.arg_iteration, blocked=[self.arg_loop.id])


def os_flags(t):
    """Set of os.O_* names or-ed together in a flags term (None when not foldable)."""
    names = set()
    ok = True

    def rec(x):
        nonlocal ok
        x = strip(x)
        if isinstance(x, Bin) and x.op == '|':
            rec(x.left)
            rec(x.right)
        elif isinstance(x, ExtRef) and x.qualname.startswith('os.O_'):
            names.add(x.qualname[3:])
        elif isinstance(x, Phi):
            ok = False
        else:
            ok = False
    rec(t)
    return names if ok else None


def left_class_sites(b, val):
    """[(obj, site)] of alternatives of val that are failure objects (class Left),
    and the list of the success ones (class Right)."""
    lefts, rights, other = [], [], []
    for a, o in alts(val):
        a2 = strip(a)
        if isinstance(a2, Obj) and a2.cls.name == 'Left':
            lefts.append(a2)
        elif isinstance(a2, Obj) and a2.cls.name == 'Right':
            rights.append(a2)
        else:
            other.append(a2)
    return lefts, rights, other


def is_left_test(c):
    """X when c = isinstance(X, Left) (or X.is_error())."""
    c = strip(c)
    if isinstance(c, Call) and c.fn == 'isinstance' and len(c.args) == 2:
        k = strip(c.args[1])
        if isinstance(k, ClsRef) and k.cls.name == 'Left':
            return c.args[0]
    return None


def either_rets(b, inside=None):
    """ret nodes whose value may be a failure (Left) as well as a success (Right)."""
    out = []
    for n in b.nodes('ret'):
        v = n.data.get('value')
        if v is None:
            continue
        fl = flat(v)
        if any(isinstance(a, Obj) and a.cls.name == 'Left' for a in fl) and \
                any(isinstance(a, Obj) and a.cls.name == 'Right' for a in fl) and \
                (inside is None or b.g.dominates(inside, n.id)):
            out.append(n)
    return out


def failure_sites(rt):
    """Sites (return / construction nodes) that produced the failure alternatives
    of the value returned at rt."""
    out = []
    for a, o in alts(rt.data['value']):
        a2 = strip(a)
        if isinstance(a2, Obj) and a2.cls.name == 'Left':
            s = o if o is not None else a2.site
            out.append(s)
    return out


def fails_closed(b, rt, target, cache=None):
    """The Either result returned at rt is known to be a success whenever target is
    reached in the same attempt: either its negative Left-test dominates target, or
    no run-consistent path leads from a site that produced one of its failure
    alternatives to target without starting another iteration of an enclosing loop.
    (The second form sees through helpers that hand the failure on as
    Optional[Left], a flag, an early return ...)"""
    g = b.g
    key = (rt.id, target)
    shared = getattr(b, '_fc_cache', None)
    if shared is None:
        shared = b._fc_cache = {}
    cache = shared
    if key in cache:
        return cache[key]
    ids = alt_ids(rt.data['value'])
    ok = False
    for c, pol, n in guards(b, target):
        c2, pol2 = unwrap_not(c, pol)
        x = is_left_test(c2)
        if x is not None and not pol2 and alt_ids(x) == ids:
            ok = True
            break
    if not ok:
        sites = failure_sites(rt)
        if sites and all(s is not None for s in sites):
            loops = [d for d in g.dominators(rt.id) if g.n(d).kind == 'loop']
            ok = all(feasible_path(b, [s], target, loops) is None for s in sites)
    if cache is not None:
        cache[key] = ok
    return ok


def success_tested_before(b, r, e, cache=None):
    """[ret node] of the Either results that dominate effect e inside the argument
    iteration and are known to be successes when e is reached."""
    return [rt for rt in either_rets(b, r.arg_iteration)
            if precedes(b, r, rt.id, e.id, cache) and fails_closed(b, rt, e.id, cache)]


def precedes(b, r, a, n, cache=None):
    """Every run-consistent path from the start of the argument iteration to n
    passes a (dominance that ignores self-contradicting paths)."""
    if b.g.dominates(a, n):
        return True
    shared = getattr(b, '_prec_cache', None)
    if shared is None:
        shared = b._prec_cache = {}
    key = ('dom', r.arg_iteration, a, n)
    if key in shared:
        return shared[key]
    # cheap answers first: n is not even reachable from a (a cannot precede it); or n is
    # not reachable at all once a is taken out (a precedes it on every path)
    rk = ('reach', a)
    if rk not in shared:
        shared[rk] = b.g.reachable_from(a)
    if n not in shared[rk]:
        shared[key] = False
        return False
    ak = ('avoid', r.arg_iteration, a)
    if ak not in shared:
        shared[ak] = b.g.reachable_from(r.arg_iteration, blocked=[a])
    if n not in shared[ak]:
        shared[key] = True
        return True
    ok = cut_c(b, r.arg_iteration, n, [a])
    shared[key] = ok
    return ok


def candidate_sites(b):
    """[(node, obj)]: construction sites of candidate trash directories (objects with a
    trash_dir_path and a gate), however they are collected (append, list literal ...)."""
    out = []
    for n in b.nodes('new'):
        o = n.data.get('obj')
        if isinstance(o, Obj) and 'trash_dir_path' in o.fields and 'gate' in o.fields:
            out.append((n, o))
    return out
