"""Loader and symbol tables for the trash-cli static analyser (tcsa).

Parses /repo's working tree (stdlib ``ast`` only; nothing from trash-cli is
imported or executed) and exposes modules, classes (with C3 MRO), functions,
class-level and module-level assignments.  Everything else (values, calls,
control flow) is the job of interp.py.
"""
import ast
import hashlib
import os

ENTRY_SCRIPTS = {
    'put': 'trash-put',
    'list': 'trash-list',
    'restore': 'trash-restore',
    'empty': 'trash-empty',
    'rm': 'trash-rm',
    'trash': 'trash',
}


class AnalysisError(Exception):
    """The analyser cannot do its job (vanished anchor, unparsable source, ...).
    Always reported as ANALYSIS-ERROR / exit 2, never as a pass."""


class FuncInfo(object):
    def __init__(self, name, qualname, module, node, cls=None):
        self.name = name
        self.qualname = qualname
        self.module = module
        self.node = node
        self.cls = cls
        self.kind = 'function'  # function | static | class | property
        if isinstance(node, ast.Lambda):
            self.is_generator = False
        else:
            self.is_generator = _is_generator(node)
            for d in node.decorator_list:
                s = ast.unparse(d)
                if s == 'staticmethod':
                    self.kind = 'static'
                elif s == 'classmethod':
                    self.kind = 'class'
                elif s == 'property':
                    self.kind = 'property'

    @property
    def file(self):
        return self.module.relpath

    @property
    def lineno(self):
        return self.node.lineno

    def __repr__(self):
        return '<func %s>' % self.qualname


def _is_generator(fnode):
    todo = list(fnode.body)
    while todo:
        n = todo.pop()
        if isinstance(n, (ast.Yield, ast.YieldFrom)):
            return True
        if isinstance(n, (ast.FunctionDef, ast.AsyncFunctionDef, ast.Lambda,
                          ast.ClassDef)):
            continue
        todo.extend(ast.iter_child_nodes(n))
    return False


class ClassInfo(object):
    def __init__(self, name, qualname, module, node, outer=None):
        self.name = name
        self.qualname = qualname
        self.module = module
        self.node = node
        self.outer = outer
        self.methods = {}       # name -> FuncInfo
        self.attrs = {}         # name -> ast expr (class-level assignment)
        self.nested = {}        # name -> ClassInfo
        self.nt_fields = None   # list of field names when a NamedTuple
        self.nt_types = {}      # field -> annotation source text
        self.base_exprs = list(node.bases) if node is not None else []
        self.bases = []         # resolved: ClassInfo | str (external qualname)
        self._mro = None

    @property
    def file(self):
        return self.module.relpath

    def __repr__(self):
        return '<class %s>' % self.qualname


class Module(object):
    def __init__(self, name, path, relpath, src):
        self.name = name
        self.path = path
        self.relpath = relpath
        self.src = src
        self.lines = src.split('\n')
        self.tree = ast.parse(src, filename=path, type_comments=True)
        self.is_package = os.path.basename(path) == '__init__.py'
        self.functions = {}
        self.classes = {}
        self.assigns = {}      # name -> ast expr (last module-level assignment)
        self.imports = {}      # local name -> ('module', modname) | ('from', modname, attr)
        self.deleted = set()

    def package(self):
        return self.name if self.is_package else self.name.rpartition('.')[0]


SIX_MOVES = {
    'six.moves.urllib.parse.quote': 'urllib.parse.quote',
    'six.moves.urllib.parse.unquote': 'urllib.parse.unquote',
    'six.moves.urllib.parse.unquote_plus': 'urllib.parse.unquote_plus',
    'six.moves.urllib.parse.quote_plus': 'urllib.parse.quote_plus',
    'six.moves.input': 'input',
    'six.moves.range': 'range',
    'six.moves.map': 'map',
    'six.moves.zip': 'zip',
    'six.moves.filter': 'filter',
    'six.text_type': 'str',
    'six.binary_type': 'bytes',
}


class Program(object):
    """All parsed sources of one working tree."""

    def __init__(self, repo):
        self.repo = os.path.abspath(repo)
        self.modules = {}
        self.scripts = {}      # cmd -> (modname, funcname)
        self.digest = None
        self._load()

    # ---------------------------------------------------------------- load
    def _load(self):
        h = hashlib.sha256()
        pkg = os.path.join(self.repo, 'trashcli')
        if not os.path.isdir(pkg):
            raise AnalysisError('package directory %s not found' % pkg)
        paths = []
        for root, dirs, files in os.walk(pkg):
            dirs[:] = sorted(d for d in dirs if d != '__pycache__')
            for f in sorted(files):
                if f.endswith('.py'):
                    paths.append(os.path.join(root, f))
        for p in paths:
            rel = os.path.relpath(p, self.repo)
            modname = rel[:-3].replace(os.sep, '.')
            if modname.endswith('.__init__'):
                modname = modname[:-len('.__init__')]
            with open(p, 'rb') as fh:
                raw = fh.read()
            h.update(rel.encode() + b'\0' + raw)
            try:
                m = Module(modname, p, rel, raw.decode('utf-8'))
            except SyntaxError as e:
                raise AnalysisError('cannot parse %s: %s' % (rel, e))
            self.modules[modname] = m
        for m in self.modules.values():
            self._index_module(m)
        # field names assigned somewhere outside a constructor: state that can change
        # between two reads (the evaluator treats reads of them inside loops as unknown)
        self.mutable_fields = set()
        for m in self.modules.values():
            for fn in ast.walk(m.tree):
                if not isinstance(fn, ast.FunctionDef) or fn.name == '__init__':
                    continue
                for n in ast.walk(fn):
                    tg = n.targets if isinstance(n, ast.Assign) else (
                        [n.target] if isinstance(n, (ast.AugAssign, ast.AnnAssign)) else [])
                    for t_ in tg:
                        for x in ast.walk(t_):
                            if isinstance(x, ast.Attribute) and isinstance(x.ctx, ast.Store):
                                self.mutable_fields.add(x.attr)
        # names that are ever the subject of an in-place change (x[k] = v, del x[k],
        # x.update(...) ...): a module-level dict / list / set literal bound to a name
        # that is not among them is a constant table of the program
        self.mutated_names = set()
        MUT = ('update', 'pop', 'popitem', 'setdefault', 'clear', 'append', 'extend',
               'insert', 'remove', 'add', 'discard', 'sort', 'reverse')
        def _nm(x):
            return x.id if isinstance(x, ast.Name) else (
                x.attr if isinstance(x, ast.Attribute) else None)
        for m in self.modules.values():
            for n in ast.walk(m.tree):
                if isinstance(n, ast.Subscript) and isinstance(n.ctx, (ast.Store, ast.Del)):
                    self.mutated_names.add(_nm(n.value))
                elif isinstance(n, ast.Call) and isinstance(n.func, ast.Attribute) and \
                        n.func.attr in MUT:
                    self.mutated_names.add(_nm(n.func.value))
                elif isinstance(n, ast.AugAssign):
                    self.mutated_names.add(_nm(n.target))
        self.mutated_names.discard(None)
        for cmd, script in ENTRY_SCRIPTS.items():
            sp = os.path.join(self.repo, script)
            if not os.path.isfile(sp):
                raise AnalysisError('entry script %s vanished' % script)
            with open(sp, 'rb') as fh:
                raw = fh.read()
            h.update(script.encode() + b'\0' + raw)
            try:
                tree = ast.parse(raw.decode('utf-8'))
            except SyntaxError as e:
                raise AnalysisError('cannot parse %s: %s' % (script, e))
            found = None
            for n in ast.walk(tree):
                if isinstance(n, ast.ImportFrom) and n.module and \
                        n.module.startswith('trashcli'):
                    for a in n.names:
                        if (a.asname or a.name) == 'main':
                            found = (n.module, a.name)
            if not found:
                raise AnalysisError(
                    'entry script %s does not import a main()' % script)
            if found[0] not in self.modules or \
                    found[1] not in self.modules[found[0]].functions:
                raise AnalysisError('entry point %s.%s of %s vanished'
                                    % (found[0], found[1], script))
            self.scripts[cmd] = found
        self.digest = h.hexdigest()

    def _index_module(self, m):
        for st in m.tree.body:
            self._index_stmt(m, st)

    def _index_stmt(self, m, st):
        if isinstance(st, ast.FunctionDef):
            m.functions[st.name] = FuncInfo(st.name, m.name + '.' + st.name,
                                            m, st)
            m.assigns.pop(st.name, None)
        elif isinstance(st, ast.ClassDef):
            m.classes[st.name] = self._index_class(m, st, None)
            m.assigns.pop(st.name, None)
        elif isinstance(st, ast.Assign):
            for t in st.targets:
                if isinstance(t, ast.Name):
                    m.assigns[t.id] = st.value
                elif isinstance(t, ast.Attribute):
                    # e.g. FileRemover.remove_file2 = FsMethods().remove_file2
                    m.assigns[ast.unparse(t)] = st.value
        elif isinstance(st, ast.AnnAssign) and isinstance(st.target, ast.Name) \
                and st.value is not None:
            m.assigns[st.target.id] = st.value
        elif isinstance(st, ast.Import):
            for a in st.names:
                if a.asname:
                    m.imports[a.asname] = ('module', a.name)
                else:
                    top = a.name.split('.')[0]
                    m.imports[top] = ('module', top)
        elif isinstance(st, ast.ImportFrom):
            base = self._abs_module(m, st.module, st.level)
            for a in st.names:
                m.imports[a.asname or a.name] = ('from', base, a.name)
        elif isinstance(st, ast.Delete):
            for t in st.targets:
                if isinstance(t, ast.Name):
                    m.deleted.add(t.id)
        elif isinstance(st, (ast.If, ast.Try)):
            # module-level conditional definitions: index every branch
            for sub in ast.iter_child_nodes(st):
                if isinstance(sub, ast.stmt):
                    self._index_stmt(m, sub)
                elif isinstance(sub, ast.ExceptHandler):
                    for s2 in sub.body:
                        self._index_stmt(m, s2)

    def _abs_module(self, m, module, level):
        if not level:
            return module or ''
        pkg = m.package().split('.')
        if level > 1:
            pkg = pkg[:-(level - 1)]
        base = '.'.join(pkg)
        if module:
            base = base + '.' + module if base else module
        return base

    def _index_class(self, m, node, outer):
        qual = (outer.qualname if outer else m.name) + '.' + node.name
        c = ClassInfo(node.name, qual, m, node, outer)
        for st in node.body:
            if isinstance(st, ast.FunctionDef):
                c.methods[st.name] = FuncInfo(st.name, qual + '.' + st.name,
                                              m, st, c)
            elif isinstance(st, ast.ClassDef):
                c.nested[st.name] = self._index_class(m, st, c)
            elif isinstance(st, ast.Assign):
                for t in st.targets:
                    if isinstance(t, ast.Name):
                        c.attrs[t.id] = st.value
            elif isinstance(st, ast.AnnAssign) and \
                    isinstance(st.target, ast.Name) and st.value is not None:
                c.attrs[st.target.id] = st.value
        # NamedTuple('X', [...]) base
        for b in node.bases:
            f = nt_fields_of(b)
            if f is not None:
                c.nt_fields = [x[0] for x in f]
                c.nt_types = dict(f)
        return c

    # ------------------------------------------------------------ queries
    def entry(self, cmd):
        modname, fname = self.scripts[cmd]
        return self.modules[modname].functions[fname]

    def all_functions(self):
        for m in self.modules.values():
            for f in m.functions.values():
                yield f
            for c in self.all_classes_of(m):
                for f in c.methods.values():
                    yield f

    def all_classes_of(self, m):
        todo = list(m.classes.values())
        while todo:
            c = todo.pop()
            yield c
            todo.extend(c.nested.values())

    def all_classes(self):
        for m in self.modules.values():
            for c in self.all_classes_of(m):
                yield c

    def find_class(self, qualname):
        for c in self.all_classes():
            if c.qualname == qualname:
                return c
        return None

    def find_function(self, qualname):
        for f in self.all_functions():
            if f.qualname == qualname:
                return f
        return None


def nt_fields_of(expr):
    """[(name, type-src)] when expr is NamedTuple('X', [('a', T), ...])."""
    if isinstance(expr, ast.Call) and \
            ast.unparse(expr.func) in ('NamedTuple', 'typing.NamedTuple') and \
            len(expr.args) == 2 and isinstance(expr.args[1], (ast.List, ast.Tuple)):
        out = []
        for el in expr.args[1].elts:
            if isinstance(el, ast.Tuple) and len(el.elts) == 2 and \
                    isinstance(el.elts[0], ast.Constant):
                out.append((el.elts[0].value, ast.unparse(el.elts[1])))
            else:
                return None
        return out
    return None


# exception hierarchy (builtins the repo and the primitive tables mention)
EXC_PARENT = {
    'BaseException': None,
    'Exception': 'BaseException',
    'KeyboardInterrupt': 'BaseException',
    'SystemExit': 'BaseException',
    'GeneratorExit': 'BaseException',
    'StopIteration': 'Exception',
    'ArithmeticError': 'Exception',
    'OverflowError': 'ArithmeticError',
    'ZeroDivisionError': 'ArithmeticError',
    'MemoryError': 'Exception',
    'AssertionError': 'Exception',
    'AttributeError': 'Exception',
    'EOFError': 'Exception',
    'ImportError': 'Exception',
    'ModuleNotFoundError': 'ImportError',
    'LookupError': 'Exception',
    'IndexError': 'LookupError',
    'KeyError': 'LookupError',
    'NameError': 'Exception',
    'OSError': 'Exception',
    'FileExistsError': 'OSError',
    'FileNotFoundError': 'OSError',
    'IsADirectoryError': 'OSError',
    'NotADirectoryError': 'OSError',
    'PermissionError': 'OSError',
    'InterruptedError': 'OSError',
    'TimeoutError': 'OSError',
    'BlockingIOError': 'OSError',
    'BrokenPipeError': 'OSError',
    'shutil.Error': 'OSError',
    'RuntimeError': 'Exception',
    'NotImplementedError': 'RuntimeError',
    'RecursionError': 'RuntimeError',
    'TypeError': 'Exception',
    'ValueError': 'Exception',
    'UnicodeError': 'ValueError',
    'UnicodeDecodeError': 'UnicodeError',
    'UnicodeEncodeError': 'UnicodeError',
}
EXC_ALIASES = {'IOError': 'OSError', 'EnvironmentError': 'OSError',
               'builtins.IOError': 'OSError', 'builtins.OSError': 'OSError',
               'socket.error': 'OSError', 'select.error': 'OSError'}


def canon_exc(name):
    return EXC_ALIASES.get(name, name)
