"""Primitive tables: the only stdlib knowledge of the analyser (DESIGN §3.6, §3.7).

Everything here restates documented stdlib/kernel behaviour (assumptions A1-A3)
and is the place to audit.
"""

# ---- mutating primitives -------------------------------------------------
# qualname -> (kind, {role: positional index})
EFFECTS = {
    'os.makedirs': ('CREATE_DIR', {'path': 0, 'mode': 1}),
    'os.mkdir': ('CREATE_DIR', {'path': 0, 'mode': 1}),
    'os.open': ('OPEN_FD', {'path': 0, 'flags': 1, 'mode': 2}),
    'os.write': ('WRITE', {'fd': 0, 'data': 1}),
    'os.close': ('CLOSE', {'fd': 0}),
    'open': ('OPEN', {'path': 0, 'mode': 1}),
    'io.open': ('OPEN', {'path': 0, 'mode': 1}),
    'codecs.open': ('OPEN', {'path': 0, 'mode': 1}),
    'shutil.move': ('MOVE', {'src': 0, 'dst': 1}),
    'os.rename': ('MOVE', {'src': 0, 'dst': 1}),
    'os.renames': ('MOVE', {'src': 0, 'dst': 1}),
    'os.replace': ('MOVE', {'src': 0, 'dst': 1}),
    'os.remove': ('DELETE', {'path': 0}),
    'os.unlink': ('DELETE', {'path': 0}),
    'os.rmdir': ('DELETE', {'path': 0}),
    'os.removedirs': ('DELETE', {'path': 0}),
    'shutil.rmtree': ('DELETE', {'path': 0}),
    'os.chmod': ('CHMOD', {'path': 0, 'mode': 1}),
    'os.lchmod': ('CHMOD', {'path': 0, 'mode': 1}),
    'os.fchmod': ('CHMOD', {'fd': 0, 'mode': 1}),
    'os.chown': ('CHOWN', {'path': 0}),
    'os.lchown': ('CHOWN', {'path': 0}),
    'os.utime': ('UTIME', {'path': 0}),
    'os.symlink': ('LINK', {'src': 0, 'dst': 1}),
    'os.link': ('LINK', {'src': 0, 'dst': 1}),
    'os.truncate': ('TRUNCATE', {'path': 0}),
    'os.ftruncate': ('TRUNCATE', {'fd': 0}),
    'os.mkfifo': ('CREATE_NODE', {'path': 0}),
    'os.mknod': ('CREATE_NODE', {'path': 0}),
    'shutil.copy': ('COPY', {'src': 0, 'dst': 1}),
    'shutil.copy2': ('COPY', {'src': 0, 'dst': 1}),
    'shutil.copyfile': ('COPY', {'src': 0, 'dst': 1}),
    'shutil.copytree': ('COPY', {'src': 0, 'dst': 1}),
    'shutil.copymode': ('CHMOD', {'src': 0, 'path': 1}),
    'shutil.copystat': ('CHMOD', {'src': 0, 'path': 1}),
    'shutil.chown': ('CHOWN', {'path': 0}),
    'shutil.make_archive': ('COPY', {'dst': 0}),
    'os.system': ('SYSTEM', {'cmd': 0}),
    'os.popen': ('SYSTEM', {'cmd': 0}),
    'subprocess.call': ('SYSTEM', {'cmd': 0}),
    'subprocess.run': ('SYSTEM', {'cmd': 0}),
    'subprocess.check_call': ('SYSTEM', {'cmd': 0}),
    'subprocess.check_output': ('SYSTEM', {'cmd': 0}),
    'subprocess.Popen': ('SYSTEM', {'cmd': 0}),
    'os.execv': ('SYSTEM', {'cmd': 0}),
    'os.execvp': ('SYSTEM', {'cmd': 0}),
    'os.spawnv': ('SYSTEM', {'cmd': 1}),
    'os.chdir': ('CHDIR', {'path': 0}),
    'os.setxattr': ('CHMOD', {'path': 0}),
    'os.removexattr': ('CHMOD', {'path': 0}),
    'tempfile.mkstemp': ('CREATE_TMP', {}),
    'tempfile.mkdtemp': ('CREATE_TMP', {}),
    'tempfile.NamedTemporaryFile': ('CREATE_TMP', {}),
}

# methods that mutate the file system when called on a path-like / file object
# (pathlib and friends); receiver unknown => matched by name on non-repo values.
MUTATING_METHODS = {
    'unlink': 'DELETE', 'rmdir': 'DELETE', 'rename': 'MOVE', 'replace': 'MOVE',
    'mkdir': 'CREATE_DIR', 'write_text': 'OPEN', 'write_bytes': 'OPEN',
    'touch': 'OPEN', 'symlink_to': 'LINK', 'hardlink_to': 'LINK',
    'chmod': 'CHMOD', 'lchmod': 'CHMOD', 'truncate': 'TRUNCATE',
}

# os./shutil. names that are documented non-mutating (anything else in those
# modules that is neither here nor in EFFECTS/PROBES is an ANALYSIS-ERROR).
NON_MUTATING = {
    'os.getuid', 'os.geteuid', 'os.getgid', 'os.getpid', 'os.getcwd', 'os.getcwdu',
    'os.getenv', 'os.environ', 'os.isatty', 'os.sep', 'os.curdir', 'os.pardir',
    'os.linesep', 'os.name', 'os.fspath', 'os.fsencode', 'os.fsdecode',
    'os.urandom', 'os.strerror', 'os.uname', 'os.umask_get', 'os.get_terminal_size',
    'os.F_OK', 'os.R_OK', 'os.W_OK', 'os.X_OK',
    'os.O_WRONLY', 'os.O_CREAT', 'os.O_EXCL', 'os.O_TRUNC', 'os.O_RDONLY',
    'os.O_RDWR', 'os.O_APPEND', 'os.O_NOFOLLOW', 'os.O_CLOEXEC', 'os.O_DIRECTORY',
    'os.EX_OK', 'os.EX_USAGE', 'os.EX_IOERR', 'os.error', 'os.read', 'os.fstat',
    'os.fdopen', 'os.fsync', 'os.fdatasync', 'os.dup', 'os.devnull', 'os.altsep', 'os.extsep',
    'os.pathsep', 'os.get_exec_path', 'os.cpu_count', 'os.times', 'os.getlogin',
    'os.getppid', 'os.getgroups', 'os.path', 'os.scandir', 'os.statvfs',
    'shutil.Error', 'shutil.which', 'shutil.disk_usage', 'shutil.get_terminal_size',
}

# ---- probes ---------------------------------------------------------------
# qualname -> (follows_final_symlink, role)
PROBES = {
    'os.path.exists': (True, 'presence'),
    'os.path.lexists': (False, 'presence'),
    'os.path.isdir': (True, 'isdir'),
    'os.path.isfile': (True, 'isfile'),
    'os.path.islink': (False, 'islink'),
    'os.path.ismount': (True, 'ismount'),
    'os.path.getsize': (True, 'stat'),
    'os.path.getmtime': (True, 'stat'),
    'os.path.samefile': (True, 'stat'),
    'os.stat': (True, 'stat'),
    'os.lstat': (False, 'stat'),
    'os.access': (True, 'presence'),
    'os.path.realpath': (True, 'resolve'),
    'os.readlink': (False, 'readlink'),
    'os.listdir': (True, 'listdir'),
    'os.scandir': (True, 'listdir'),
    'os.walk': (True, 'walk'),
    'os.statvfs': (True, 'stat'),
    'glob.glob': (True, 'glob'),
    'glob.iglob': (True, 'glob'),
}

# pure path/string helpers the rules reason about
PATH_PURE = {
    'os.path.join', 'os.path.dirname', 'os.path.basename', 'os.path.normpath',
    'os.path.abspath', 'os.path.split', 'os.path.splitext', 'os.path.relpath',
    'os.path.expanduser', 'os.path.commonprefix', 'os.path.isabs',
    'posixpath.join', 'posixpath.dirname', 'posixpath.basename',
    'posixpath.normpath', 'posixpath.abspath',
}
# transformers that remove trailing separators from a path
TRAILING_SEP_STRIPPERS = {'os.path.normpath', 'posixpath.normpath',
                          'os.path.abspath', 'posixpath.abspath',
                          'os.path.realpath'}
# transformers that resolve a final symbolic link
LINK_RESOLVERS = {'os.path.realpath', 'os.readlink', 'os.path.samefile'}

# ---- may-raise (hard: environment/input can induce them) --------------------
OSERR = ('OSError',)
MAY_RAISE = {
    'open': OSERR, 'io.open': OSERR, 'codecs.open': OSERR,
    'os.path.getsize': OSERR, 'os.path.getmtime': OSERR, 'os.path.samefile': OSERR,
    'os.stat': OSERR, 'os.lstat': OSERR, 'os.listdir': OSERR, 'os.scandir': OSERR,
    'os.readlink': OSERR, 'os.statvfs': OSERR,
    'urllib.parse.quote': ('UnicodeEncodeError',),
    'urllib.parse.quote_plus': ('UnicodeEncodeError',),
    'datetime.datetime.strptime': ('ValueError',),
    'time.strptime': ('ValueError',),
    'int': ('ValueError',),
    # an owner without passwd / group entry (tarball, NFS, deleted account) is ordinary
    'pwd.getpwuid': ('KeyError',), 'grp.getgrgid': ('KeyError',), 'pwd.getpwnam': ('KeyError',),
    'float': ('ValueError',),
    'input': ('EOFError', 'KeyboardInterrupt'),
    'raw_input': ('EOFError', 'KeyboardInterrupt'),
}
for _q, (_k, _r) in EFFECTS.items():
    if _k not in ('CREATE_TMP',):
        MAY_RAISE.setdefault(_q, OSERR)
# total probes: never raise for a str argument (return False instead)
for _q in ('os.path.exists', 'os.path.lexists', 'os.path.isdir', 'os.path.isfile',
           'os.path.islink', 'os.path.ismount', 'os.access', 'os.path.realpath',
           'os.walk'):
    MAY_RAISE.pop(_q, None)

# methods on external values
METHOD_MAY_RAISE = {
    'read': ('OSError', 'UnicodeDecodeError'),      # text-mode file read, strict errors
    'readlines': ('OSError', 'UnicodeDecodeError'),
    'readline': ('OSError', 'UnicodeDecodeError'),
    'encode': ('UnicodeEncodeError',),
    'decode': ('UnicodeDecodeError',),
    'strptime': ('ValueError',),
}

# soft raises: only ever matched against handlers of the enclosing function
SOFT_RAISE_CALLS = {
    'getattr': ('AttributeError',),
}

BUILTIN_NAMES = {
    'len', 'str', 'int', 'float', 'bool', 'list', 'tuple', 'dict', 'set', 'frozenset',
    'sorted', 'reversed', 'enumerate', 'zip', 'map', 'filter', 'range', 'iter', 'next',
    'isinstance', 'issubclass', 'type', 'getattr', 'setattr', 'hasattr', 'print',
    'repr', 'min', 'max', 'sum', 'any', 'all', 'abs', 'open', 'input', 'super',
    'object', 'id', 'hash', 'callable', 'vars', 'dir', 'format', 'chr', 'ord', 'bytes',
    'oct', 'hex', 'bin', 'delattr', 'OverflowError', 'ZeroDivisionError', 'MemoryError',
    'TimeoutError', 'BlockingIOError', 'BrokenPipeError', 'InterruptedError', 'ascii', 'slice', 'memoryview', 'complex', 'locals', 'globals',
    'bytearray', 'divmod', 'round', 'pow', 'staticmethod', 'classmethod', 'property',
    'NotImplemented', 'Ellipsis', 'unicode', 'raw_input', 'basestring',
    'BaseException', 'Exception', 'KeyboardInterrupt', 'SystemExit', 'StopIteration',
    'ArithmeticError', 'AssertionError', 'AttributeError', 'EOFError', 'ImportError',
    'ModuleNotFoundError', 'LookupError', 'IndexError', 'KeyError', 'NameError',
    'OSError', 'IOError', 'EnvironmentError', 'FileExistsError', 'FileNotFoundError',
    'IsADirectoryError', 'NotADirectoryError', 'PermissionError', 'RuntimeError',
    'NotImplementedError', 'TypeError', 'ValueError', 'UnicodeError',
    'UnicodeDecodeError', 'UnicodeEncodeError', 'InterruptedError', 'RecursionError',
}


def fold_os_flags(names):
    return set(names)
