"""C14 -- no purge without consent: --dry-run and a negative answer change nothing."""
from .common import *  # noqa

EXPLANATION = (
    'Guard analysis of the trash-empty effect graph.  (R14.1) every DELETE is dominated '
    'by the --dry-run option value being false; (R14.2) the "would remove" output and the '
    'DELETE consume the same element of the same woven generator, so the printed set is '
    'the removed set; (R14.3) every run-consistent path to a DELETE passes "interactive '
    'is false" or "reply predicate is true", and the predicate folds to "first character, '
    'lower-cased, equals y"; (R14.4) EOF / interrupt at the prompt never reaches a '
    'DELETE; (R14.5) the argparse declarations wire -i/-f/--dry-run/interactive default '
    'as documented.  Decides guards and their wiring; byte-for-byte equality of the trash '
    'follows only together with C11 (no other effect exists).')
ASSUMPTIONS = [
    'argparse semantics of store_true / store_false / default',
    'os.isatty(0) is the terminal test',
]
MINIMUM = {'R14.1': 2, 'R14.2': 2, 'R14.3': 2, 'R14.4': 1, 'R14.5': 4}


# rules of sibling properties that are necessary conditions of this one too
# (evaluated by the sibling module on the same graphs, reported under this property)
ALSO = {'C09': {'R09.3': ('what is announced and what is removed is the same pair of paths',
                   'empty ')},
 'C11': {'R11.2': 'what is announced and what is removed derive from the same listing'},
 'C15': {'R15.2': 'what is announced is removed or reported: payload first, a failed removal '
                  'is loud, the .trashinfo goes last',
         'R15.4': 'the payload delete is existence-tolerant without following links'},
 'C18': {'R18.5': 'what the dry run announces is removed whatever it is (no link-following '
                  'test)'}}

def is_reply_predicate(t, is_reply):
    """Canonical 'reply starts with y/Y' forms."""
    t = strip(t)
    if isinstance(t, Cmp) and t.op == '==':
        l, r = strip(t.left), strip(t.right)
        if isinstance(l, Const):
            l, r = r, l
        if isinstance(r, Const) and r.value == 'y' and isinstance(l, MCall) and \
                l.name == 'lower' and not l.args:
            inner = strip(l.recv)
            if isinstance(inner, Sub) and is_reply(inner.base) and \
                    isinstance(inner.index, Slice):
                lo, up = inner.index.lower, inner.index.upper
                if (lo is None or is_const(lo, 0)) and is_const(up, 1) and \
                        inner.index.step is None:
                    return True
        if isinstance(r, Const) and r.value in ('y', 'Y') and isinstance(l, Sub) and \
                is_reply(l.base):
            return False  # only one case accepted with == : needs lower()
    if isinstance(t, MCall) and t.name == 'startswith' and len(t.args) == 1:
        arg = strip(t.args[0])
        recv = strip(t.recv)
        if is_const(arg, 'y') and isinstance(recv, MCall) and recv.name == 'lower' and \
                is_reply(recv.recv):
            return True
        if isinstance(arg, Const) and isinstance(arg.value, tuple) and \
                set(arg.value) == {'y', 'Y'} and is_reply(recv):
            return True
        if isinstance(arg, TupleT) and {const_value(x) for x in arg.items} == {'y', 'Y'} \
                and is_reply(recv):
            return True
    if isinstance(t, Cmp) and t.op == 'in':
        l, r = strip(t.left), strip(t.right)
        vals = None
        if isinstance(r, TupleT):
            vals = {const_value(x) for x in r.items}
        elif isinstance(r, ListObj) and not r.open:
            vals = {const_value(x) for x in r.items}
        elif isinstance(r, Const) and isinstance(r.value, (tuple, list)):
            vals = set(r.value)
        if vals == {'y', 'Y'} and isinstance(l, Sub) and is_reply(l.base) and \
                isinstance(l.index, Slice) and is_const(l.index.upper, 1) and \
                (l.index.lower is None or is_const(l.index.lower, 0)):
            return True
    return False


def printed_holes(o):
    """The values substituted into the text an output node prints."""
    out = []
    for a in o.data['args']:
        for x in flat(a):
            if isinstance(x, Fmt):
                out.extend(x.args)
            else:
                out.append(x)
    return out


def check(ctx):
    b = ctx.graph('empty')
    g = b.g
    deletes = mutating_effects(b, 'DELETE')
    ctx.require(deletes, 'C14: no DELETE in the empty graph (anchor vanished)')
    opts = argparse_options(b)
    by_dest = {}
    for o in opts:
        by_dest.setdefault(o['dest'], []).append(o)

    # ---- R14.5 option wiring
    dry = [o for o in opts if '--dry-run' in o['flags']]
    ctx.require(dry, 'R14.5: no --dry-run option declared')
    dry_dest = dry[0]['dest']
    ctx.ob('R14.5', '--dry-run is store_true with a false default',
           is_const(dry[0]['action'], 'store_true') and
           (dry[0]['default'] is None or is_const(dry[0]['default'], False)),
           node=dry[0]['node'], message='--dry-run is not a plain store_true flag defaulting '
                                        'to false')
    inter = [o for o in opts if '-i' in o['flags'] or '--interactive' in o['flags']]
    ctx.require(inter, 'R14.5: no -i/--interactive option declared')
    int_dest = inter[0]['dest']
    dflt = strip(inter[0]['default']) if inter[0]['default'] is not None else None
    ctx.ob('R14.5', '-i sets interactive (store_true)', is_const(inter[0]['action'],
                                                                 'store_true'),
           node=inter[0]['node'], message='-i/--interactive does not set the flag')
    ctx.ob('R14.5', 'interactive defaults to "stdin is a terminal"',
           is_call(dflt, 'os.isatty') and is_const(strip(dflt.args[0]), 0),
           node=inter[0]['node'],
           message='the default of interactive is %s, not os.isatty(0)' % short(dflt))
    force = [o for o in opts if '-f' in o['flags']]
    ctx.ob('R14.5', '-f clears interactive (store_false, same dest)',
           bool(force) and is_const(force[0]['action'], 'store_false') and
           force[0]['dest'] == int_dest,
           node=force[0]['node'] if force else inter[0]['node'],
           message='-f does not clear the interactive flag')

    # ---- the prompt
    inputs = [n for n in b.nodes('ext') if n.data['fn'] in ('input', 'raw_input')]
    ctx.require(inputs, 'C14: no prompt (input call) in the empty graph')
    reply_ids = set(cid(n.data['result']) for n in inputs)

    def is_reply(t):
        return all(cid(a) in reply_ids for a in flat(t))

    def is_dry(t):
        return is_option_value(t, dry_dest)

    def is_inter(t):
        return is_option_value(t, int_dest)

    not_dry = [n.id for n in assume_nodes(b, lambda c, pol, n: is_dry(c) and not pol)]
    is_dry_nodes = [n.id for n in assume_nodes(b, lambda c, pol, n: is_dry(c) and pol)]
    not_inter = [n.id for n in assume_nodes(b, lambda c, pol, n: is_inter(c) and not pol)]
    consent = [n.id for n in assume_nodes(
        b, lambda c, pol, n: pol and is_reply_predicate(c, is_reply))]

    # consent through a value: assume(cond) whose alternatives are each either the
    # reply predicate or a constant True produced under "not interactive"
    def consent_by_origin(n):
        c, pol = unwrap_not(n.data['cond'], n.data['pol'])
        if not pol or not isinstance(c, Phi):
            return False
        saw_pred = False
        for a, o in c.alts:
            a = strip(a)
            if is_reply_predicate(a, is_reply):
                saw_pred = True
                continue
            if is_const(a, True) and o is not None and \
                    any(g.dominates(x, o) for x in not_inter):
                continue
            if is_const(a, False):
                continue
            return False
        return saw_pred
    consent += [n.id for n in b.nodes('assume') if consent_by_origin(n)]

    dry_outputs = []
    for n in b.nodes('output'):
        if not any(isinstance(a, ExtRef) and a.qualname == 'sys.stdout'
                   for a in flat(n.data['stream'])):
            continue          # the dry-run report goes to stdout; diagnostics do not count
        if any(g.dominates(x, n.id) for x in is_dry_nodes) or \
                (is_dry_nodes and cut_c(b, g.entry, n.id, is_dry_nodes)):
            dry_outputs.append(n)

    for d in deletes:
        path = d.data['roles']['path']
        ctx.ob('R14.1', 'DELETE is dominated by "--dry-run is false"',
               any(g.dominates(x, d.id) for x in not_dry) or
               (bool(not_dry) and cut_c(b, g.entry, d.id, not_dry)), node=d,
               message='a DELETE is reachable while --dry-run is set (or its guard is gone)')
        ok = cut_c(b, g.entry, d.id, set(not_inter) | set(consent))
        ctx.ob('R14.3', 'every path to a DELETE passes "not interactive" or "reply starts '
                        'with y"', ok, node=d,
               message='a DELETE is reachable in interactive mode without a reply beginning '
                       'with y/Y')
        # R14.2: same yielded element printed by the dry run
        y = last_dominating(b, d.id, 'yield')
        twins = [o for o in dry_outputs if last_dominating(b, o.id, 'yield') == y and
                 any(alt_ids(h) == alt_ids(path) for h in printed_holes(o))]
        ctx.ob('R14.2', 'the dry-run line and the DELETE consume the same generator element',
               y is not None and bool(twins), node=d,
               message='what --dry-run prints is not the path this DELETE removes (no '
                       '"would remove" output on the same yielded element)')
    for o in dry_outputs:
        y = last_dominating(b, o.id, 'yield')
        twins = [d for d in deletes if last_dominating(b, d.id, 'yield') == y]
        ctx.ob('R14.2', 'every dry-run line corresponds to a DELETE of the real run',
               bool(twins), node=o,
               message='--dry-run prints a path that the real run does not remove')

    # ---- R14.4 no default-yes
    for n in inputs:
        for cls, how, target, soft in n.data.get('raises', []):
            if how == 'escape':
                ctx.ob('R14.4', '%s at the prompt escapes before any effect' % cls, True,
                       node=n)
                continue
            reach = g.reachable_from(target)
            hit = [d for d in deletes if d.id in reach]
            ctx.ob('R14.4', '%s at the prompt never leads to a DELETE' % cls, not hit,
                   node=n, message='%s at the prompt is handled and the run goes on to '
                                   'delete (%s)' % (cls, hit[0].loc() if hit else ''))
