"""Roles on the reading commands (list / restore / rm / empty): where the parsed
original location and deletion date are *used*."""
from .common import *  # noqa

UNQUOTERS = ('urllib.parse.unquote', 'urllib.parse.unquote_plus',
             'urllib.parse.unquote_to_bytes', 'urllib.unquote')
STRPTIME = ('datetime.datetime.strptime', 'time.strptime')


def has_unquote(t):
    return contains(t, lambda x: isinstance(x, Call) and x.fn in UNQUOTERS)


def has_strptime(t):
    return contains(t, lambda x: isinstance(x, Call) and x.fn in STRPTIME)


def location_joins(t):
    """[(V, P, joincall)] for sub-terms join(V, P) with P carrying the decoded Path."""
    out = []
    seen = set()
    for x in walk(t):
        if is_call(x, *JOIN) and len(x.args) == 2 and has_unquote(x.args[1]) and \
                not has_unquote(x.args[0]):
            if cid(x) not in seen:
                seen.add(cid(x))
                out.append((x.args[0], x.args[1], x))
    return out


def unquote_calls(t):
    seen = {}
    for x in walk(t):
        if isinstance(x, Call) and x.fn in UNQUOTERS:
            seen[cid(x)] = x
    return list(seen.values())


def strptime_calls(t):
    seen = {}
    for x in walk(t):
        if isinstance(x, Call) and x.fn in STRPTIME:
            seen[cid(x)] = x
    return list(seen.values())


def reads_info(t):
    """t derives from the content of a file that was opened (a .trashinfo)."""
    return contains(t, lambda x: isinstance(x, Call) and x.fn in ('open', 'io.open'))


def is_stdout(t):
    return any(isinstance(a, ExtRef) and a.qualname == 'sys.stdout' for a in flat(t))


def location_uses(ctx, cmd):
    """[(what, node, term)]: where a command uses an original location."""
    b = ctx.graph(cmd)
    g = b.g
    out = []
    if cmd == 'list':
        for o in b.nodes('output'):
            if is_stdout(o.data['stream']):
                for a in o.data['args']:
                    if reads_info(a):
                        out.append(('printed line', o, a))
    elif cmd == 'rm':
        for n in b.nodes('assume'):
            c, pol = unwrap_not(n.data['cond'], n.data['pol'])
            for x in walk(c):
                if isinstance(x, Call) and x.fn.startswith('fnmatch.') and x.args:
                    out.append(('match subject', n, x.args[0]))
    elif cmd == 'restore':
        for e in mutating_effects(b, 'MOVE'):
            out.append(('restore destination', e, e.data['roles']['dst']))
        for o in b.nodes('output'):
            if is_stdout(o.data['stream']):
                for a in o.data['args']:
                    if reads_info(a):
                        out.append(('listed line', o, a))
        for n in b.nodes('assume'):
            c, pol = unwrap_not(n.data['cond'], n.data['pol'])
            for x in walk(c):
                if isinstance(x, MCall) and x.name == 'startswith' and has_unquote(x.recv):
                    out.append(('scope test', n, x.recv))
    return out


def date_uses(ctx, cmd):
    b = ctx.graph(cmd)
    out = []
    if cmd in ('list', 'restore'):
        for o in b.nodes('output'):
            if is_stdout(o.data['stream']):
                for a in o.data['args']:
                    if has_strptime(a):
                        out.append(('printed date', o, a))
    if cmd == 'restore':
        for n in b.nodes('sort'):
            if has_strptime(n.data['key']):
                out.append(('sort key', n, n.data['key']))
    if cmd == 'empty':
        for n in b.nodes('assume'):
            c, pol = unwrap_not(n.data['cond'], n.data['pol'])
            if contains(c, lambda x: isinstance(x, Cmp) and x.op in ('<', '>', '<=', '>=')
                        and (has_strptime(x.left) or has_strptime(x.right))):
                out.append(('age comparison', n, c))
    return out
