"""Builder core: frames, environments, node emission, exception routing,
global lookup, class hierarchy (MRO) resolution."""
import ast

from .graph import Graph
from .model import (AnalysisError, ClassInfo, FuncInfo, EXC_PARENT, SIX_MOVES,
                    canon_exc, nt_fields_of)
from .prims import BUILTIN_NAMES
from .terms import *  # noqa

MAX_NODES = 400000
MAX_DEPTH = 60


class Env(object):
    __slots__ = ('vars', 'parent')

    def __init__(self, parent=None):
        self.vars = {}
        self.parent = parent

    def lookup(self, name):
        e = self
        while e is not None:
            if name in e.vars:
                return e.vars[name]
            e = e.parent
        return None


class Frame(object):
    def __init__(self, func, module, env, stack, depth):
        self.func = func
        self.module = module
        self.env = env
        self.stack = stack
        self.depth = depth
        self.ret_target = None
        self.returns = []
        self.yield_handler = None
        self.is_gen = False
        self.caught = []       # stack of handler records being executed (for bare raise)

    @property
    def qualname(self):
        return self.func.qualname if self.func is not None else \
            '<module %s>' % self.module.name


class TryRec(object):
    def __init__(self, kind, handlers=None, region=None):
        self.kind = kind            # 'try' | 'barrier'
        self.handlers = handlers or []   # list of HandlerRec
        self.region = region
        self.crossings = []         # barrier: [(cls, from_node, soft)]


class HandlerRec(object):
    def __init__(self, classes, entry, node):
        self.classes = classes      # tuple of canonical names, or None for bare except
        self.entry = entry
        self.node = node
        self.arrived = set()


class LoopRec(object):
    def __init__(self, brk, cont):
        self.brk = brk
        self.cont = cont
        self.break_envs = []
        # loop with an else clause: break jumps past it (set by st_For / st_While)
        self.brk_else = None
        self.brk_else_envs = None


class CoreMixin(object):
    def init_core(self, program):
        self.p = program
        self.g = Graph()
        self.frame = None
        self.cur = None
        self.handlers = []
        self.loops = []
        self.active = []
        self.diags = []
        self.stats = {'inlined': 0, 'external': 0, 'by_name': 0, 'unresolved': 0,
                      'method_ext': 0, 'generators_woven': 0}
        self.escapes = []        # [(cls, from_node)]
        self.global_cache = {}
        self.global_busy = set()
        self.synth_classes = {}
        self.mro_cache = {}
        self.base_cache = {}
        self.gen_objs = []
        self.regions = {}        # region id -> TryRec(barrier)
        self.by_name_calls = []

    # ------------------------------------------------------------------ nodes
    def diag(self, kind, msg, node=None):
        loc = None
        if node is not None and hasattr(node, 'lineno') and self.frame is not None:
            loc = '%s:%s' % (self.frame.module.relpath, node.lineno)
        self.diags.append((kind, loc, msg))

    def new_node(self, kind, astnode=None, data=None, line=None):
        if len(self.g.nodes) > MAX_NODES:
            raise AnalysisError('inlined graph exceeds %d nodes' % MAX_NODES)
        f = self.frame
        if line is None:
            line = getattr(astnode, 'lineno', 0) if astnode is not None else 0
        src = None
        if astnode is not None and isinstance(astnode, ast.AST):
            try:
                if isinstance(astnode, (ast.stmt, ast.expr)):
                    seg = ast.unparse(astnode)
                    src = seg if len(seg) < 200 else seg[:200] + '...'
            except Exception:
                src = None
        return self.g.add(kind, f.module.relpath if f else '?', line,
                          f.qualname if f else '?', f.stack if f else (), data, src)

    def emit(self, kind, astnode=None, data=None, line=None):
        """Append a node after the current one and make it current.
        In dead code (cur is None) nothing is created and None is returned."""
        if self.cur is None:
            return None
        n = self.new_node(kind, astnode, data, line)
        self.g.edge(self.cur, n)
        self.cur = n
        return n

    def join_node(self, astnode=None, what='join'):
        return self.new_node('join', astnode, {'what': what})

    def goto(self, target, label=None):
        if self.cur is not None:
            self.g.edge(self.cur, target, label)
        self.cur = None

    def land(self, join):
        """Continue at a join node if anything flows into it."""
        self.cur = join if self.g.pred[join] else None

    # ------------------------------------------------------------ exceptions
    def exc_chain(self, name):
        """[name, parent, grandparent, ...] with canonical builtin names; repo
        exception classes are given by qualname."""
        out = []
        seen = set()
        cur = name
        while cur is not None and cur not in seen:
            seen.add(cur)
            cur = canon_exc(cur)
            out.append(cur)
            if cur in EXC_PARENT:
                cur = EXC_PARENT[cur]
                continue
            c = self.p.find_class(cur)
            if c is None:
                # unknown external exception class: assume direct child of Exception
                if cur != 'Exception':
                    cur = 'Exception'
                    continue
                break
            nxt = None
            for b in self.class_bases(c):
                if isinstance(b, ClassInfo):
                    if self.is_exception_class(b):
                        nxt = b.qualname
                        break
                elif isinstance(b, str):
                    bn = canon_exc(b.split('.')[-1] if b.startswith('builtins.') else b)
                    if bn in EXC_PARENT:
                        nxt = bn
                        break
            cur = nxt
        return out

    def is_exception_class(self, c):
        for k in self.mro(c):
            if isinstance(k, str):
                kn = canon_exc(k)
                if kn in EXC_PARENT:
                    return True
        return False

    def exc_relation(self, raised, handler_classes):
        """'sub' when raised is (a subclass of) a handled class; 'super' when a
        handled class is a strict subclass of raised (may be caught); else None."""
        if handler_classes is None:
            return 'sub'
        chain = self.exc_chain(raised)
        rel = None
        for h in handler_classes:
            h = canon_exc(h)
            if h in chain:
                return 'sub'
            if raised in self.exc_chain(h)[1:]:
                rel = 'super'
        return rel

    def route_raise(self, from_node, classes, soft=False, handlers=None):
        """Add exceptional edges from from_node for each class in classes."""
        if from_node is None:
            return
        stack = self.handlers if handlers is None else handlers
        n = self.g.n(from_node)
        rec = n.data.setdefault('raises', [])
        for cls in classes:
            cls = canon_exc(cls)
            caught = False
            for tr in reversed(stack):
                if tr.kind == 'barrier':
                    tr.crossings.append((cls, from_node, soft))
                    continue
                for h in tr.handlers:
                    rel = self.exc_relation(cls, h.classes)
                    if rel is None:
                        continue
                    if soft and h.classes is None:
                        # bare except: soft raises are still matched
                        pass
                    arrived = cls if rel == 'sub' else \
                        [c for c in h.classes if cls in self.exc_chain(c)][0]
                    h.arrived.add(canon_exc(arrived))
                    self.g.edge(from_node, h.entry, 'exc:' + cls)
                    rec.append((cls, 'caught' if rel == 'sub' else 'maybe', h.entry, soft))
                    if rel == 'sub':
                        caught = True
                        break
                if caught:
                    break
            if not caught and not soft:
                self.g.edge(from_node, self.g.escape, 'exc:' + cls)
                rec.append((cls, 'escape', self.g.escape, soft))
                self.escapes.append((cls, from_node))

    # --------------------------------------------------------------- classes
    def eval_detached(self, module, expr, what, names=None):
        """Evaluate a module/class-level expression outside the entry's flow
        (``names``: the namespace of the class body the expression sits in)."""
        saved = (self.frame, self.cur, self.handlers, self.loops)
        try:
            env = Env()
            if names:
                env.vars.update(names)
            self.frame = Frame(None, module, env, (), 0)
            self.handlers = []
            self.loops = []
            self.cur = self.new_node('modinit', expr, {'what': what})
            return self.ev(expr)
        finally:
            self.frame, self.cur, self.handlers, self.loops = saved

    def class_bases(self, c):
        """Resolved bases: ClassInfo or external qualname strings."""
        if c in self.base_cache:
            return self.base_cache[c]
        self.base_cache[c] = []   # recursion guard
        out = []
        for b in c.base_exprs:
            if nt_fields_of(b) is not None:
                out.append('typing.NamedTuple')
                continue
            v = self.static_class_expr(c.module, b, c)
            out.append(v)
        self.base_cache[c] = out
        return out

    def static_class_expr(self, module, expr, ctx_cls=None):
        """Resolve a base-class expression without building nodes."""
        if isinstance(expr, ast.Subscript):
            return self.static_class_expr(module, expr.value, ctx_cls)
        if isinstance(expr, ast.Name):
            if ctx_cls is not None:
                k = ctx_cls.outer
                while k is not None:
                    if expr.id in k.nested:
                        return k.nested[expr.id]
                    k = k.outer
            r = self.static_lookup(module, expr.id)
            return r
        if isinstance(expr, ast.Attribute):
            base = self.static_class_expr(module, expr.value, ctx_cls)
            if isinstance(base, ClassInfo):
                if expr.attr in base.nested:
                    return base.nested[expr.attr]
                return 'unknown.' + expr.attr
            if isinstance(base, tuple) and base[0] == 'module':
                m = self.p.modules.get(base[1])
                if m is not None:
                    return self.static_lookup(m, expr.attr)
                return base[1] + '.' + expr.attr
            if isinstance(base, str):
                return base + '.' + expr.attr
        if isinstance(expr, ast.Call):
            return 'call.' + ast.unparse(expr.func)
        return 'unknown.' + ast.unparse(expr)

    def static_lookup(self, module, name, _depth=0):
        """Class-level static resolution of a global name: ClassInfo,
        ('module', name) or external qualname string."""
        if _depth > 20:
            return 'unknown.' + name
        if name in module.classes:
            return module.classes[name]
        if name in module.assigns and name not in module.functions:
            e = module.assigns[name]
            if isinstance(e, (ast.Name, ast.Attribute, ast.Subscript)):
                return self.static_class_expr(module, e)
            if isinstance(e, ast.Call):
                return 'call.' + ast.unparse(e.func)
        if name in module.imports:
            imp = module.imports[name]
            if imp[0] == 'module':
                if imp[1] in self.p.modules or imp[1] == 'trashcli':
                    return ('module', imp[1])
                return imp[1]
            _, base, attr = imp
            if base in self.p.modules:
                sub = base + '.' + attr
                bm = self.p.modules[base]
                if attr in bm.classes or attr in bm.assigns or attr in bm.imports \
                        or attr in bm.functions:
                    return self.static_lookup(bm, attr, _depth + 1)
                if sub in self.p.modules:
                    return ('module', sub)
                return 'unknown.' + sub
            q = base + '.' + attr
            return SIX_MOVES.get(q, q)
        if name in BUILTIN_NAMES:
            return name
        return 'unknown.' + name

    def mro(self, c):
        if c in self.mro_cache:
            return self.mro_cache[c]
        self.mro_cache[c] = [c]
        seqs = []
        bases = self.class_bases(c)
        for b in bases:
            if isinstance(b, ClassInfo):
                seqs.append(list(self.mro(b)))
            else:
                seqs.append([b])
        seqs.append(list(bases))
        res = [c]
        seqs = [s for s in seqs if s]
        while seqs:
            cand = None
            for s in seqs:
                h = s[0]
                if not any(h in t[1:] for t in seqs):
                    cand = h
                    break
            if cand is None:
                # inconsistent hierarchy: fall back to DFS order
                for s in seqs:
                    for x in s:
                        if x not in res:
                            res.append(x)
                break
            res.append(cand)
            seqs = [[x for x in s if x != cand] for s in seqs]
            seqs = [s for s in seqs if s]
        self.mro_cache[c] = res
        return res

    def is_subclass(self, c, other):
        """other: ClassInfo or external qualname/builtin name."""
        for k in self.mro(c):
            if k is other:
                return True
            if isinstance(k, str) and isinstance(other, str):
                if canon_exc(k) == canon_exc(other):
                    return True
                if k.split('.')[-1] == other.split('.')[-1]:
                    return True
        if isinstance(other, str) and canon_exc(other) in EXC_PARENT:
            # builtin exception ancestry
            for k in self.mro(c):
                if isinstance(k, str) and canon_exc(other) in self.exc_chain(k):
                    return True
        return False

    def is_enum(self, c):
        return any(isinstance(k, str) and k.split('.')[-1] in ('Enum', 'IntEnum')
                   for k in self.mro(c))

    def nt_fields(self, c):
        for k in self.mro(c):
            if isinstance(k, ClassInfo) and k.nt_fields is not None:
                return k.nt_fields
        return None

    def find_member(self, c, name):
        """(kind, owner, payload) of attribute ``name`` along the MRO:
        ('method', cls, FuncInfo) | ('attr', cls, expr) | ('nested', cls, ClassInfo)
        | ('field', cls, None) | None."""
        for k in self.mro(c):
            if not isinstance(k, ClassInfo):
                continue
            if name in k.methods:
                return ('method', k, k.methods[name])
            if name in k.attrs:
                return ('attr', k, k.attrs[name])
            if name in k.nested:
                return ('nested', k, k.nested[name])
            if k.nt_fields is not None and name in k.nt_fields:
                return ('field', k, None)
        return None

    # --------------------------------------------------------------- globals
    def lookup_global(self, module, name):
        key = (module.name, name)
        if key in self.global_cache:
            return self.global_cache[key]
        if key in self.global_busy:
            return Unknown('cyclic-global:%s.%s' % key)
        self.global_busy.add(key)
        try:
            v = self._lookup_global(module, name)
        finally:
            self.global_busy.discard(key)
        if v is not None:
            self.global_cache[key] = v
        return v

    def _lookup_global(self, module, name):
        if name in module.deleted and name not in module.assigns:
            return None
        if name in module.functions:
            return FuncRef(module.functions[name], None)
        if name in module.classes:
            return ClsRef(module.classes[name])
        if name in module.assigns:
            expr = module.assigns[name]
            f = nt_fields_of(expr)
            if f is not None:
                return ClsRef(self.synth_namedtuple(module, name, f))
            v = self.eval_detached(module, expr, 'global %s.%s' % (module.name, name))
            if isinstance(v, (DictObj, ListObj)) and name not in self.p.mutated_names and \
                    isinstance(expr, (ast.Dict, ast.List, ast.Set, ast.Tuple)):
                object.__setattr__(v, 'site', None)      # a constant table (see model)
            return v
        if name in module.imports:
            imp = module.imports[name]
            if imp[0] == 'module':
                mn = imp[1]
                if mn in self.p.modules or mn == 'trashcli' or mn.startswith('trashcli.'):
                    return ModRef(mn)
                return ExtRef(SIX_MOVES.get(mn, mn))
            _, base, attr = imp
            if base in self.p.modules:
                bm = self.p.modules[base]
                v = self.lookup_global(bm, attr)
                if v is not None:
                    return v
                sub = base + '.' + attr
                if sub in self.p.modules:
                    return ModRef(sub)
                self.diags.append(('missing-global', module.relpath,
                                   '%s imports %s from %s which does not define it'
                                   % (module.name, attr, base)))
                return Unknown('missing:%s.%s' % (base, attr))
            q = base + '.' + attr
            return ExtRef(SIX_MOVES.get(q, q))
        if name in BUILTIN_NAMES:
            return ExtRef(name)
        return None

    def synth_namedtuple(self, module, name, fields):
        key = (module.name, name)
        if key not in self.synth_classes:
            c = ClassInfo(name, module.name + '.' + name, module, None)
            c.nt_fields = [x[0] for x in fields]
            c.nt_types = dict(fields)
            c.base_exprs = []
            self.base_cache[c] = ['typing.NamedTuple']
            self.synth_classes[key] = c
        return self.synth_classes[key]

    def lookup_name(self, name):
        v = self.frame.env.lookup(name)
        if v is not None:
            return v
        # class-level names visible inside a class body evaluation
        return self.lookup_global(self.frame.module, name)
