"""Fire / silent matrix for the checker's self-test (DESIGN §7).

Each entry edits a scratch copy of the tree under analysis.  'fire' entries
break a property and name, per property, the rule(s) of which at least one must
newly report; 'silent' entries are behaviour-preserving and must not change any
verdict.  Entries whose anchor text no longer occurs exactly once are reported
as stale and skipped (the tree under analysis may carry other edits).
"""
MUTANTS = []


def F(id, fire, edits, what=''):
    MUTANTS.append({'id': id, 'kind': 'fire', 'props': sorted(fire), 'fire': fire,
                    'edits': edits, 'what': what})


def S(id, props, edits, what=''):
    MUTANTS.append({'id': id, 'kind': 'silent', 'props': sorted(props), 'fire': {},
                    'edits': edits, 'what': what})


RM_CAN = 'trashcli/rm/cleanable_trashcan.py'
EMPTIER = 'trashcli/empty/emptier.py'
RESTORER = 'trashcli/restore/restorer.py'
FS = 'trashcli/fs.py'

# ------------------------------------------------------------------ C15
F('c15-rm-swap', {'C15': ['R15.3']}, [(RM_CAN,
  """        self._file_remover.remove_file_if_exists(backup_copy)
        self._file_remover.remove_file2(trash_info_path)""",
  """        self._file_remover.remove_file2(trash_info_path)
        self._file_remover.remove_file_if_exists(backup_copy)""")],
  'trash-rm removes the .trashinfo before the payload')
F('c15-empty-yield-info-first', {'C15': ['R15.2']}, [(EMPTIER,
  """                    yield (path_of_backup_copy(trash_info_path))
                    yield trash_info_path""",
  """                    yield trash_info_path
                    yield (path_of_backup_copy(trash_info_path))""")],
  'trash-empty yields the .trashinfo before the payload')
F('c15-restore-remove-first', {'C15': ['R15.1']}, [(RESTORER,
  """        self.write_fs.move(trashed_file.original_file, trashed_file.original_location)
        self.write_fs.remove_file(trashed_file.info_file)""",
  """        self.write_fs.remove_file(trashed_file.info_file)
        self.write_fs.move(trashed_file.original_file, trashed_file.original_location)""")],
  'trash-restore removes the .trashinfo before moving the payload out')
F('c15-restore-remove-in-finally', {'C15': ['R15.1']}, [(RESTORER,
  """        self.write_fs.move(trashed_file.original_file, trashed_file.original_location)
        self.write_fs.remove_file(trashed_file.info_file)""",
  """        try:
            self.write_fs.move(trashed_file.original_file, trashed_file.original_location)
        finally:
            self.write_fs.remove_file(trashed_file.info_file)""")],
  'trash-restore removes the .trashinfo even when the move failed')
F('c15-rm-not-tolerant', {'C15': ['R15.4']}, [(RM_CAN,
  "self._file_remover.remove_file_if_exists(backup_copy)",
  "self._file_remover.remove_file2(backup_copy)")],
  'trash-rm payload removal raises when the payload is already gone (re-run cannot complete)')
F('c15-empty-no-orphans', {'C15': ['R15.4']}, [(EMPTIER,
  """            for orphan in self.trash_dir_reader.list_orphans(
                    trash_dir.path):
                yield orphan
""", "")],
  'trash-empty no longer purges payloads without .trashinfo')
F('c15-empty-sorted-consumer', {'C15': ['R15.2']}, [(EMPTIER,
  "for path in self.files_to_delete(trash_dirs, environ, parsed_days):",
  "for path in sorted(self.files_to_delete(trash_dirs, environ, parsed_days), reverse=True):")],
  'trash-empty collects and reorders the paths to delete (info may precede payload)')
S('c15-rm-helper-extraction', ['C15', 'C11', 'C12'], [(RM_CAN,
  """        backup_copy = path_of_backup_copy(trash_info_path)
        self._file_remover.remove_file_if_exists(backup_copy)
        self._file_remover.remove_file2(trash_info_path)""",
  """        self._drop_payload(trash_info_path)
        self._drop_info(trash_info_path)

    def _drop_payload(self, info):
        payload = path_of_backup_copy(info)
        self._file_remover.remove_file_if_exists(payload)

    def _drop_info(self, info):
        self._file_remover.remove_file2(info)""")],
  'helper extraction in CleanableTrashcan')
S('c15-remove-unlink', ['C15', 'C11'], [(FS,
  """class RealRemoveFile2(RemoveFile2):
    def remove_file2(self, path):
        try:
            os.remove(path)""",
  """class RealRemoveFile2(RemoveFile2):
    def remove_file2(self, path):
        try:
            os.unlink(path)""")],
  'os.unlink instead of os.remove')

# ------------------------------------------------------------------ C11
F('c11-isdir-rmtree', {'C11': ['R11.1']}, [(FS,
  """    def remove_file2(self, path):
        try:
            os.remove(path)
        except OSError:
            shutil.rmtree(path)""",
  """    def remove_file2(self, path):
        if os.path.isdir(path):
            shutil.rmtree(path)
        else:
            os.remove(path)""")],
  'remover refactored to "if isdir: rmtree else: remove" (isdir follows a trashed symlink to a directory)')
F('c11-rm-deletes-original-location', {'C11': ['R11.2']}, [('trashcli/rm/rm_cmd.py',
  """                            trashcan.delete_trash_info_and_backup_copy(
                                info_file)""",
  """                            trashcan.delete_trash_info_and_backup_copy(
                                info_file)
                            FileRemover().remove_file_if_exists(original_location)""")],
  'trash-rm also deletes the original location')
F('c11-realpath-payload', {'C11': ['R11.2', 'R11.4']}, [(RM_CAN,
  "backup_copy = path_of_backup_copy(trash_info_path)",
  "import os\n        backup_copy = os.path.realpath(path_of_backup_copy(trash_info_path))")],
  'payload path resolved with realpath before deletion (follows a trashed symlink)')
F('c11-empty-moves', {'C11': ['R11.3']}, [(EMPTIER,
  "                    self.file_remover.remove_file_if_exists(path)",
  "                    import shutil\n                    shutil.move(path, path + '.old')\n                    self.file_remover.remove_file_if_exists(path + '.old')")],
  'trash-empty renames entries before deleting them')
F('c11-rmtree-first', {'C11': ['R11.1']}, [(FS,
  """    def remove_file2(self, path):
        try:
            os.remove(path)
        except OSError:
            shutil.rmtree(path)""",
  """    def remove_file2(self, path):
        try:
            shutil.rmtree(path)
        except OSError:
            os.remove(path)""")],
  'rmtree attempted first')
S('c11-remover-renamed', ['C11', 'C15', 'C14'], [(FS,
  "class RealRemoveFileIfExists(RemoveFileIfExists, RemoveFile2):\n    def remove_file_if_exists(self, path):\n        if os.path.lexists(path): self.remove_file2(path)",
  "class RealRemoveFileIfExists(RemoveFileIfExists, RemoveFile2):\n    def remove_file_if_exists(self, path):\n        present = os.path.lexists(path)\n        if not present:\n            return\n        self.remove_file2(path)")],
  'early-return form of the existence guard')

# ------------------------------------------------------------------ C14
GUARD = 'trashcli/empty/guard.py'
EPARSER = 'trashcli/empty/parser.py'
F('c14-remove-in-both-branches', {'C14': ['R14.1']}, [(EMPTIER,
  "                self.console.print_dry_run(path)\n",
  "                self.console.print_dry_run(path)\n                self.file_remover.remove_file_if_exists(path)\n")],
  'dry run also removes')
F('c14-predicate-not-n', {'C14': ['R14.3']}, [('trashcli/empty/parse_reply.py',
  "return reply[0:1].lower() == 'y'", "return reply[0:1].lower() != 'n'")],
  'anything but n counts as consent (empty reply, EOF text)')
F('c14-eof-default-yes', {'C14': ['R14.4', 'R14.3']}, [('trashcli/empty/user.py',
  "        reply = self.input.read_input(self.prepare_output_message(trash_dirs))\n",
  "        try:\n            reply = self.input.read_input(self.prepare_output_message(trash_dirs))\n        except EOFError:\n            reply = 'y'\n")],
  'end of input treated as yes')
F('c14-interactive-ignored', {'C14': ['R14.3']}, [(GUARD,
  "        list_result = trash_dirs_list if ok_to_empty else []\n        return UserIntention(ok_to_empty=ok_to_empty,",
  "        list_result = trash_dirs_list\n        return UserIntention(ok_to_empty=True,")],
  'answer is read but ignored')
F('c14-dryrun-default-swapped', {'C14': ['R14.5']}, [(EPARSER,
  "                            action='store_true',\n                            help='show which files would have been removed',",
  "                            action='store_false',\n                            help='show which files would have been removed',")],
  '--dry-run becomes store_false')
F('c14-dry-run-prints-other', {'C14': ['R14.2']}, [(EMPTIER,
  "                self.console.print_dry_run(path)\n",
  "                self.console.print_dry_run(path_of_backup_copy(path))\n")],
  'dry run prints a different path than the one removed')
F('c14-f-sets-interactive', {'C14': ['R14.5']}, [(EPARSER,
  "                            action='store_false',\n                            help='don\\'t ask before emptying trash directories',",
  "                            action='store_true',\n                            help='don\\'t ask before emptying trash directories',")],
  '-f no longer clears interactive')
S('c14-guard-inverted', ['C14', 'C15', 'C11'], [(EMPTIER,
  """            if dry_run:
                self.console.print_dry_run(path)
            else:
                if verbose:
                    self.console.print_removing(path)
                try:
                    self.file_remover.remove_file_if_exists(path)
                except OSError:
                    self.console.print_cannot_remove_error(path)""",
  """            if not dry_run:
                if verbose:
                    self.console.print_removing(path)
                try:
                    self.file_remover.remove_file_if_exists(path)
                except OSError:
                    self.console.print_cannot_remove_error(path)
            else:
                self.console.print_dry_run(path)""")],
  'guard inverted')
S('c14-predicate-startswith', ['C14'], [('trashcli/empty/parse_reply.py',
  "return reply[0:1].lower() == 'y'", "return reply.lower().startswith('y')")],
  'equivalent reply predicate')

# ------------------------------------------------------------------ C05
JANITOR = 'trashcli/put/janitor.py'
PERSISTER = 'trashcli/put/janitor_tools/info_file_persister.py'
PUTDIR = 'trashcli/put/janitor_tools/put_trash_dir.py'
CHECKER = 'trashcli/put/janitor_tools/trash_dir_checker.py'
VOLREADER = 'trashcli/put/trash_dir_volume_reader.py'
F('c05-split-write', {'C05': ['R05.2']}, [(FS,
  "                os.write(file_handle, content)\n",
  "                os.write(file_handle, content[:13])\n                os.write(file_handle, content[13:])\n")],
  'info content written by two os.write calls')
F('c05-gate-after-mkdirs', {'C05': ['R05.3']}, [(JANITOR,
  """        can_be_used = self.trashing_checker.file_could_be_trashed_in(
            trashee, candidate, environ)
        if isinstance(can_be_used, Left):
            return make_error(can_be_used)

        dirs_creation = self.dir_creator.make_candidate_dirs(candidate)
        if isinstance(dirs_creation, Left):
            return make_error(dirs_creation)
""",
  """        dirs_creation = self.dir_creator.make_candidate_dirs(candidate)
        if isinstance(dirs_creation, Left):
            return make_error(dirs_creation)

        can_be_used = self.trashing_checker.file_could_be_trashed_in(
            trashee, candidate, environ)
        if isinstance(can_be_used, Left):
            return make_error(can_be_used)
""")],
  'trash directories are created before the same-volume gate is consulted')
F('c05-realpath-dropped', {'C05': ['R05.3'], 'C07': ['R07.4']}, [(VOLREADER,
  "        return self.fs.volume_of(\n            self.fs.realpath(norm_trash_dir_path))",
  "        return self.fs.volume_of(norm_trash_dir_path)")],
  'volume of the trash dir computed without resolving symlinks')
F('c05-move-then-info', {'C05': ['R05.1']}, [(JANITOR,
  """        persisting_job = self.persister.try_persist(trashinfo_data.value())
        try:
            trashed_file = self.executor.execute(persisting_job, log_data)
        except (IOError, OSError) as error:
            return make_error(Left(UnableToCreateTrashInfo(error)))
        trashed = self.trash_dir.try_trash(trashee.path, trashed_file)
""",
  """        data = trashinfo_data.value()
        import os
        planned = TrashedFile(os.path.join(data.info_dir_path, data.basename + '.trashinfo'))
        trashed = self.trash_dir.try_trash(trashee.path, planned)
        persisting_job = self.persister.try_persist(data)
        trashed_file = self.executor.execute(persisting_job, log_data)
""")],
  'payload moved before its .trashinfo is persisted')
F('c05-gate-always-ok', {'C05': ['R05.3']}, [(CHECKER,
  "        if not same_volume:\n            return Left(DifferentVolumes(trash_dir_volume, trashee.volume))\n",
  "")],
  'same-volume gate always passes')
F('c05-fallback-without-env', {'C05': ['R05.3'], 'C07': ['R07.6']}, [(CHECKER,
  "        if environ.get('TRASH_ENABLE_HOME_FALLBACK', None) == \"1\":\n            return make_ok()\n        return Left(HomeFallBackNotEnabled())",
  "        return make_ok()")],
  'home fallback gate ignores TRASH_ENABLE_HOME_FALLBACK')
S('c05-executor-next', ['C05', 'C01', 'C04'], [('trashcli/put/jobs.py',
  """        for status in job:
            self.logger.log_multiple(status.logs(), log_data)
            if status.has_succeeded():
                return status.result()
        raise ValueError("Should not happen!")""",
  """        for status in job:
            self.logger.log_multiple(status.logs(), log_data)
            if not status.has_succeeded():
                continue
            return status.result()
        raise ValueError("Should not happen!")""")],
  'executor loop rewritten with continue')

# ------------------------------------------------------------------ C01
TRASHER = 'trashcli/put/trasher.py'
FILE_TRASHER = 'trashcli/put/file_trasher.py'
DIRMAKER = 'trashcli/put/dir_maker.py'
F('c01-no-dot-guard', {'C01': ['R01.2']}, [(TRASHER,
  "        if should_skipped_by_specs(path):", "        if False and should_skipped_by_specs(path):")],
  'dot-entry refusal disabled')
F('c01-exists-not-lexists', {'C01': ['R01.2'], 'C18': ['R18.1']}, [(TRASHER,
  "        if not self.fs.lexists(path):", "        if not self.fs.exists(path):")],
  'presence decided by exists (dangling symlink = absent)')
F('c01-no-release', {'C01': ['R01.3']}, [(PUTDIR,
  "            self.fs.remove_file(paths.trashinfo_path)\n", "")],
  'failed move leaves the .trashinfo behind')
F('c01-handler-narrowed', {'C01': ['R01.3'], 'C17': ['R17.2']}, [(PUTDIR,
  "        except (IOError, OSError) as error:", "        except FileNotFoundError as error:")],
  'only FileNotFoundError of the move is handled')
F('c01-either-untested', {'C01': ['R01.4']}, [(JANITOR,
  "        if isinstance(trashed, Left):\n            return make_error(trashed)\n", "")],
  'success reported without testing the result of the move')
F('c01-either-untested-dirs', {'C01': ['R01.4']}, [(JANITOR,
  "        if isinstance(dirs_creation, Left):\n            return make_error(dirs_creation)\n", "")],
  'directory creation failure ignored')
F('c01-continue-after-success', {'C01': ['R01.5']}, [(FILE_TRASHER,
  "                    context.log_data)\n                return TrashResult.Success\n",
  "                    context.log_data)\n")],
  'candidate loop goes on after success')
F('c01-remove-argument-on-failure', {'C01': ['R01.6']}, [(PUTDIR,
  "            self.fs.remove_file(paths.trashinfo_path)\n",
  "            self.fs.remove_file(paths.trashinfo_path)\n            self.fs.remove_file(path)\n")],
  'failure handler deletes the argument')
F('c01-copy-instead-of-move', {'C01': ['R01.6', 'R01.7']}, [('trashcli/put/fs/real_fs.py',
  """        try:
            os.rename(path, dest)
        except OSError as e:
            if e.errno != errno.EXDEV:
                raise
            fs.move(path, dest)""", "        import shutil\n        shutil.copytree(path, dest)\n        shutil.rmtree(path)")],
  'move replaced by copy + delete')
S('c01-handler-oserror-only', ['C01', 'C17', 'C16'], [(PUTDIR,
  "        except (IOError, OSError) as error:", "        except OSError as error:")],
  'IOError is OSError in py3')
S('c01-inline-move-file', ['C01', 'C18', 'C05'], [(PUTDIR,
  "            move_file(self.fs, path, paths.backup_copy_path)",
  "            self.fs.move(os.path.normpath(path), paths.backup_copy_path)")],
  'move_file inlined')

# ------------------------------------------------------------------ C04
F('c04-no-probe', {'C04': ['R04.3']}, [(PERSISTER,
  "            if os.path.lexists(path_of_backup_copy(trashinfo_path)):\n                index += 1\n                continue\n", "")],
  'payload-name-taken probe removed')
F('c04-no-excl', {'C04': ['R04.1']}, [(FS,
  "os.O_WRONLY | os.O_CREAT | os.O_EXCL", "os.O_WRONLY | os.O_CREAT | os.O_TRUNC")],
  'O_EXCL dropped')
F('c04-write-file', {'C04': ['R04.1'], 'C05': ['R05.1']}, [('trashcli/put/fs/real_fs.py',
  "    def atomic_write(self, path, content):\n        fs.atomic_write(path, content)",
  "    def atomic_write(self, path, content):\n        with open(path, 'wb') as f:\n            f.write(content)")],
  'info written with open(..., "wb")')
F('c04-check-then-create', {'C04': ['R04.4']}, [(DIRMAKER,
  "        try:\n            self.fs.makedirs(path, mode)\n        except OSError:\n            if not self.fs.isdir(path):\n                raise",
  "        if not self.fs.isdir(path):\n            self.fs.makedirs(path, mode)")],
  'mkdir -p replaced by check-then-create')
F('c04-no-increment', {'C04': ['R04.5']}, [(PERSISTER,
  "                                        \"attempt for creating %s failed.\" % trashinfo_path)\n\n            index += 1\n",
  "                                        \"attempt for creating %s failed.\" % trashinfo_path)\n")],
  'retry without incrementing the index')
F('c04-dest-not-from-info', {'C04': ['R04.2'], 'C05': ['R05.1']}, [(PUTDIR,
  "            move_file(self.fs, path, paths.backup_copy_path)",
  "            move_file(self.fs, path, os.path.join(os.path.dirname(os.path.dirname(paths.trashinfo_path)), 'files', os.path.basename(path)))")],
  'payload name taken from the argument instead of the won .trashinfo name')
S('c04-flags-constant', ['C04'], [(FS,
  "        return os.open(path, os.O_WRONLY | os.O_CREAT | os.O_EXCL, 0o600)",
  "        flags = os.O_WRONLY | os.O_CREAT | os.O_EXCL\n        return os.open(path, flags, 0o600)")],
  'flags through a local')
S('c04-exist-ok', ['C04', 'C07'], [(DIRMAKER,
  "        try:\n            self.fs.makedirs(path, mode)\n        except OSError:\n            if not self.fs.isdir(path):\n                raise",
  "        import os\n        os.makedirs(path, mode, exist_ok=True)")],
  'makedirs(exist_ok=True)')


# ------------------------------------------------------------------ regressions of the fix: commits
REAL_FS = 'trashcli/put/fs/real_fs.py'
F('fix1-reverted', {'C01': ['R01.1']}, [('trashcli/put/core/trashee.py',
  "os.path.basename(path.rstrip(os.path.sep))", "os.path.basename(path)")],
  'dot-entry guard ignores trailing slashes again')
F('fix2-reverted', {'C01': ['R01.7']}, [(REAL_FS,
  """        try:
            os.rename(path, dest)
        except OSError as e:
            if e.errno != errno.EXDEV:
                raise
            fs.move(path, dest)""", "        return fs.move(path, dest)")],
  'put moves with shutil.move again')
F('fix2-fallback-on-any-error', {'C01': ['R01.7']}, [(REAL_FS,
  "            if e.errno != errno.EXDEV:\n                raise\n", "")],
  'fallback to shutil.move on every rename error')
F('fix4-reverted', {'C04': ['R04.3']}, [(PERSISTER,
  "if os.path.lexists(path_of_backup_copy(trashinfo_path)):", "if os.path.exists(path_of_backup_copy(trashinfo_path)):")],
  'taken-name probe follows symlinks again')
S('fix1-normpath-variant', ['C01'], [('trashcli/put/core/trashee.py',
  "    basename = os.path.basename(path.rstrip(os.path.sep))\n    return (basename == \".\") or (basename == \"..\")",
  "    basename = os.path.basename(path)\n    norm = os.path.basename(os.path.normpath(path))\n    return basename in ('.', '..') or norm in ('.', '..')")],
  'guard rewritten with normpath plus the literal basename')

# ------------------------------------------------------------------ C18
ORIGLOC = 'trashcli/put/original_location.py'
F('c18-realpath-whole-arg', {'C18': ['R18.2', 'R18.4']}, [(ORIGLOC,
  "        normalized_path = os.path.normpath(path)\n",
  "        normalized_path = self.fs.realpath(os.path.normpath(path))\n")],
  'original location computed from realpath of the whole argument')
F('c18-no-normpath-in-move', {'C18': ['R18.3']}, [(PUTDIR,
  "    fs.move(os.path.normpath(src), dest)", "    fs.move(src, dest)")],
  'trailing slashes reach the move: "link/" moves the directory behind the link')
F('c18-move-realpath', {'C18': ['R18.3', 'R18.2'], 'C01': ['R01.6']}, [(PUTDIR,
  "    fs.move(os.path.normpath(src), dest)", "    fs.move(fs.realpath(os.path.normpath(src)), dest)")],
  'move acts on the resolved path')
F('c18-volume-of-entry', {'C05': ['R05.3'], 'C07': ['R07.4']}, [('trashcli/put/fs/volume_of_parent.py',
  "        parent_realpath = ParentRealpathFs(self.fs).parent_realpath(\n            os.path.normpath(path))\n        return self.fs.volume_of(parent_realpath)",
  "        return self.fs.volume_of(self.fs.realpath(path))")],
  'volume of the entry computed from the resolved entry instead of its parent')
F('c18-restore-copies', {'C18': ['R18.5']}, [('trashcli/restore/file_system.py',
  "    def move(self, path, dest):\n        return fs.move(path, dest)",
  "    def move(self, path, dest):\n        import shutil\n        shutil.copy2(path, dest)\n        os.remove(path)")],
  'restore copies the payload back (dereferences links)')
S('c18-abspath-added', ['C18', 'C01'], [(PUTDIR,
  "    fs.move(os.path.normpath(src), dest)", "    fs.move(os.path.abspath(os.path.normpath(src)), dest)")],
  'abspath added around the normalised source')

# ------------------------------------------------------------------ C06
F('c06-no-probe', {'C06': ['R06.1', 'R06.3']}, [(RESTORER,
  "        if not overwrite and self.read_fs.path_exists(trashed_file.original_location):",
  "        if False:")],
  'existence probe removed')
F('c06-probe-basename', {'C06': ['R06.1']}, [(RESTORER,
  "        if not overwrite and self.read_fs.path_exists(trashed_file.original_location):",
  "        if not overwrite and self.read_fs.path_exists(os.path.basename(trashed_file.original_location)):")],
  'probe looks at the base name only')
F('c06-handler-keyerror', {'C06': ['R06.3']}, [('trashcli/restore/restore_asking_the_user.py',
  "        except IOError as e:\n            return Left(Die(e))", "        except KeyError as e:\n            return Left(Die(e))")],
  'refusal no longer caught')
F('c06-move-before-probe', {'C06': ['R06.1']}, [(RESTORER,
  """        if not overwrite and self.read_fs.path_exists(trashed_file.original_location):
            raise IOError(
                'Refusing to overwrite existing file "%s".' % os.path.basename(
                    trashed_file.original_location))
        else:
            parent = os.path.dirname(trashed_file.original_location)
            self.write_fs.mkdirs(parent)

        self.write_fs.move(trashed_file.original_file, trashed_file.original_location)
""",
  """        parent = os.path.dirname(trashed_file.original_location)
        self.write_fs.mkdirs(parent)
        self.write_fs.move(trashed_file.original_file, trashed_file.original_location)
        if not overwrite and self.read_fs.path_exists(trashed_file.original_location):
            raise IOError(
                'Refusing to overwrite existing file "%s".' % os.path.basename(
                    trashed_file.original_location))
""")],
  'move happens before the probe')
F('fix5-reverted', {'C06': ['R06.2']}, [('trashcli/restore/file_system.py',
  "        return os.path.lexists(path)", "        return os.path.exists(path)")],
  'destination probe follows symlinks again')
F('c06-refusal-exits-zero', {'C06': ['R06.3']}, [('trashcli/restore/real_output.py',
  "        self.printerr(error)\n        self.exit(1)", "        self.printerr(error)\n        self.exit(0)")],
  'refusal exits with status 0')
S('c06-overwrite-or-form', ['C06', 'C15'], [(RESTORER,
  """        if not overwrite and self.read_fs.path_exists(trashed_file.original_location):
            raise IOError(
                'Refusing to overwrite existing file "%s".' % os.path.basename(
                    trashed_file.original_location))
        else:
            parent = os.path.dirname(trashed_file.original_location)
            self.write_fs.mkdirs(parent)
""",
  """        if overwrite or not self.read_fs.path_exists(trashed_file.original_location):
            parent = os.path.dirname(trashed_file.original_location)
            self.write_fs.mkdirs(parent)
        else:
            raise IOError(
                'Refusing to overwrite existing file "%s".' % os.path.basename(
                    trashed_file.original_location))
""")],
  'guard written as "if overwrite or not exists"')

# ------------------------------------------------------------------ C03
FMT = 'trashcli/put/format_trash_info.py'
PPATH = 'trashcli/parse_trashinfo/parse_path.py'
PINFO = 'trashcli/parse_trashinfo/parse_trashinfo.py'
F('c03-safe-percent', {'C03': ['R03.1']}, [(FMT, "return url_quote(original_location, '/')",
  "return url_quote(original_location, '/%')")], 'percent sign left unescaped')
F('c03-unquote-plus', {'C03': ['R03.1']}, [(PPATH,
  "from six.moves.urllib.parse import unquote\n", "from six.moves.urllib.parse import unquote_plus as unquote\n")],
  'readers decode with unquote_plus')
F('c03-date-space', {'C03': ['R03.3']}, [(FMT, 'deletion_date.strftime("%Y-%m-%dT%H:%M:%S")',
  'deletion_date.strftime("%Y-%m-%d %H:%M:%S")')], 'date written with a space')
F('c03-key-with-space', {'C03': ['R03.2']}, [(FMT, '"Path=%s\\n"', '"Path = %s\\n"')],
  'key written as "Path ="')
F('c03-no-header', {'C03': ['R03.2']}, [(FMT, '"[Trash Info]\\n" +', '"" +')], 'header dropped')
F('c03-slice-4', {'C03': ['R03.4']}, [(PPATH, "unquote(line[len('Path='):])", "unquote(line[4:])")],
  'reader slices at the wrong offset')
F('c03-double-unquote', {'C03': ['R03.1']}, [(PPATH, "unquote(line[len('Path='):])",
  "unquote(unquote(line[len('Path='):]))")], 'reader decodes twice')
F('c03-reader-format', {'C03': ['R03.3']}, [(PINFO, '"DeletionDate=%Y-%m-%dT%H:%M:%S"',
  '"DeletionDate=%Y-%m-%d %H:%M:%S"')], 'reader parses another date format')
F('c03-last-path-wins', {'C03': ['R03.3']}, [(PPATH,
  "    for line in contents.split('\\n'):\n        if line.startswith('Path='):\n            return unquote(line[len('Path='):])\n    raise ParseError('Unable to parse Path')",
  "    found = None\n    for line in contents.split('\\n'):\n        if line.startswith('Path='):\n            found = unquote(line[len('Path='):])\n    if found is None:\n        raise ParseError('Unable to parse Path')\n    return found")],
  'last Path= line wins')
F('c03-latin1', {'C03': ['R03.2']}, [(FMT, ".encode('utf-8')", ".encode('latin-1')")],
  'content encoded as latin-1')
S('c03-safe-keyword', ['C03'], [(FMT, "return url_quote(original_location, '/')",
  "return url_quote(original_location, safe='/')")], 'safe given by keyword')
S('c03-fstring-template', ['C03', 'C05'], [(FMT,
  """    content = ("[Trash Info]\\n" +
               "Path=%s\\n" % format_original_location(original_location) +
               "DeletionDate=%s\\n" % format_date(deletion_date)).encode('utf-8')""",
  """    p = format_original_location(original_location)
    d = format_date(deletion_date)
    content = f"[Trash Info]\\nPath={p}\\nDeletionDate={d}\\n".encode('utf-8')""")],
  'template as f-string')

# ------------------------------------------------------------------ C10
OLDER = 'trashcli/empty/older_than.py'
DAD = 'trashcli/empty/delete_according_date.py'
F('c10-le', {'C10': ['R10.1']}, [(OLDER, "return deletion_date < limit_date", "return deletion_date <= limit_date")],
  '<= instead of <')
F('c10-hours', {'C10': ['R10.1']}, [(OLDER, "timedelta(days=days_ago)", "timedelta(hours=days_ago)")], 'hours instead of days')
F('c10-no-subtraction', {'C10': ['R10.1']}, [(OLDER, "return deletion_date < limit_date", "return deletion_date < now_value")],
  'compared against now')
F('c10-undated-deleted', {'C10': ['R10.2']}, [(DAD, "                    return True\n            return False\n", "                    return True\n            return True\n")],
  'undated entries are purged when DAYS is given')
F('c10-none-compared', {'C10': ['R10.2']}, [(DAD,
  "            if deletion_date is not None:\n                if older_than(parsed_days, now_value, deletion_date):\n                    return True",
  "            if older_than(parsed_days, now_value, deletion_date):\n                return True")],
  'None date reaches the comparison')
F('c10-only-info', {'C10': ['R10.4'], 'C15': ['R15.2']}, [(EMPTIER,
  "                    yield (path_of_backup_copy(trash_info_path))\n", "")],
  'only the .trashinfo of an old entry is removed')
F('c10-swapped-operands', {'C10': ['R10.1']}, [(OLDER, "return deletion_date < limit_date", "return limit_date < deletion_date")],
  'operands swapped (purges the young entries)')
S('c10-flipped', ['C10'], [(OLDER, "return deletion_date < limit_date", "return limit_date > deletion_date")], 'flipped comparison')
S('c10-age-form', ['C10'], [(OLDER, "    limit_date = now_value - timedelta(days=days_ago)\n    return deletion_date < limit_date",
  "    return now_value - deletion_date > timedelta(days=days_ago)")], 'age > delta form')

# ------------------------------------------------------------------ C12
FILTER = 'trashcli/rm/filter.py'
F('c12-fnmatch', {'C12': ['R12.1']}, [(FILTER, "fnmatch.fnmatchcase(subject, self.pattern)", "fnmatch.fnmatch(subject, self.pattern)")], 'case-normalising matcher')
F('c12-always-basename', {'C12': ['R12.2']}, [(FILTER, "subject = original_location if self.pattern[0] == '/' else basename", "subject = basename")], 'subject always the basename')
F('c12-swapped', {'C12': ['R12.1']}, [(FILTER, "fnmatch.fnmatchcase(subject, self.pattern)", "fnmatch.fnmatchcase(self.pattern, subject)")], 'arguments swapped')
F('c12-lower', {'C12': ['R12.1']}, [(FILTER, "fnmatch.fnmatchcase(subject, self.pattern)", "fnmatch.fnmatchcase(subject, self.pattern.lower())")], 'pattern lower-cased')
F('c12-delete-unmatched', {'C12': ['R12.3']}, [('trashcli/rm/rm_cmd.py',
  "                        if cmd.matches(original_location):\n                            trashcan.delete_trash_info_and_backup_copy(\n                                info_file)",
  "                        if cmd.matches(original_location) or True:\n                            trashcan.delete_trash_info_and_backup_copy(\n                                info_file)")],
  'deletion not guarded by the match')
F('c12-selection-inverted', {'C12': ['R12.2']}, [(FILTER, "subject = original_location if self.pattern[0] == '/' else basename", "subject = basename if self.pattern[0] == '/' else original_location")], 'selection inverted')
S('c12-startswith', ['C12'], [(FILTER, "self.pattern[0] == '/'", "self.pattern.startswith('/')")], 'startswith form')

# ------------------------------------------------------------------ C02 / C13
SORTM = 'trashcli/restore/sort_method.py'
RASK = 'trashcli/restore/restore_asking_the_user.py'
TFILE = 'trashcli/restore/trashed_file.py'
HANDLER = 'trashcli/restore/handler.py'
F('fix3-registry-class', {'C02': ['R02.1'], 'C13': ['R13.3']}, [(SORTM,
  "        Sort.DoNot: NoSorter(),", "        Sort.DoNot: NoSorter,")], 'registry holds the class again')
F('fix3-generator-returned', {'C13': ['R13.3'], 'C02': ['R02.1']}, [(SORTM,
  "        return list(trashed_files)\n", "        return trashed_files\n")], 'NoSorter returns the generator')
F('c02-registry-not-total', {'C02': ['R02.1']}, [(SORTM, "        Sort.DoNot: NoSorter(),\n", "")],
  'no sorter for Sort.DoNot')
F('c02-no-mkdirs', {'C02': ['R02.2']}, [(RESTORER,
  "            parent = os.path.dirname(trashed_file.original_location)\n            self.write_fs.mkdirs(parent)\n",
  "            pass\n")], 'missing parents are not recreated')
F('c02-own-trash-path', {'C02': ['R02.3']}, [('trashcli/restore/trash_directories.py',
  "            for path1, volume1 in volume_trash_dir2(volume, self.uid):\n                yield path1, volume1",
  "            import os\n            yield os.path.join(volume, '.Trash_%s' % self.uid), volume")],
  'restore builds its own .Trash path (different from put)')
F('c02-reader-base-dirname', {'C02': ['R02.4'], 'C20': ['R20.3']}, [('trashcli/restore/trashed_files.py',
  "                    original_location = parse_original_location(contents,\n                                                                info_file.volume)",
  "                    import os\n                    original_location = parse_original_location(contents,\n                                                                os.path.dirname(os.path.dirname(os.path.dirname(info_file.path))))")],
  'restore resolves relative paths against the parent of the trash directory')
F('c13-bare-prefix', {'C13': ['R13.2']}, [(TFILE, "self.original_location.startswith(path + os.path.sep)", "self.original_location.startswith(path)")],
  'scope test is a bare prefix test')
F('c13-enumerate-1', {'C13': ['R13.3']}, [(HANDLER, "enumerate(trashed_files)", "enumerate(trashed_files, 1)")], 'numbering from 1')
F('c13-validate-inside', {'C13': ['R13.1']}, [(RASK,
  """        file_to_restore = [input_read.trashed_files[index] for index in
                           sequences.all_indexes()]""",
  """        file_to_restore = [input_read.trashed_files[index] for index in
                           Sequences([Single(int(x)) for x in input_read.user_input.split(',') if x.isdigit()]).all_indexes()]""")],
  'selection re-parses the reply instead of using the validated indexes')
F('c13-no-range-check', {'C13': ['R13.1']}, [(RASK,
  """    for index in result.all_indexes():
        if not index in acceptable_values:
            raise InvalidEntry(
                "out of range %s..%s: %s" %
                (acceptable_values[0], acceptable_values[-1], index))
""", "")], 'range validation removed')
F('c13-restore-while-validating', {'C13': ['R13.1']}, [(RASK,
  "        sequences = parse_indexes(input_read.user_input,\n                                  len(input_read.trashed_files))\n",
  "        sequences = parse_indexes(input_read.user_input,\n                                  len(input_read.trashed_files) + 1)\n")],
  'acceptance range is one too long')
F('c13-empty-reply-restores-all', {'C13': ['R13.4']}, [(RASK,
  '            if user_input == "":\n                return Left(Exiting("No files were restored"))\n            else:\n                return Right(\n                    InputRead(user_input, args.trashed_files, args.overwrite))',
  '            return Right(\n                InputRead(user_input or "0", args.trashed_files, args.overwrite))')],
  'empty reply restores entry 0')
F('c13-invalid-entry-not-caught', {'C13': ['R13.4']}, [(RASK,
  "    except InvalidEntry as e:\n        return Left(Die(\"Invalid entry: %s\" % e))",
  "    except KeyError as e:\n        return Left(Die(\"Invalid entry: %s\" % e))")],
  'invalid reply escapes')
S('c13-sorted-copy', ['C13', 'C02'], [(SORTM,
  "        return sorted(trashed_files, key=self.sort_func)",
  "        result = list(trashed_files)\n        result.sort(key=self.sort_func)\n        return result")],
  'list.sort on a copy')

# ------------------------------------------------------------------ C20 / C09
LISTACT = 'trashcli/list/list_trash_action.py'
RMLIST = 'trashcli/rm/list_trashinfo.py'
TDR = 'trashcli/lib/trash_dir_reader.py'
F('c20-rm-joins-dirname', {'C20': ['R20.3']}, [(RMLIST,
  "                complete_path = os.path.join(volume, path)",
  "                complete_path = os.path.join(os.path.dirname(trashdir_path), path)")],
  'trash-rm resolves relative Paths against the parent of the trash directory')
F('c20-list-no-unquote', {'C20': ['R20.1', 'R20.2'], 'C03': ['R03.1'], 'C09': ['R09.2']}, [(LISTACT,
  "                relative_location = parse_path(contents)",
  "                relative_location = [l[5:] for l in contents.split('\\n') if l.startswith('Path=')][0]")],
  'trash-list prints the raw (still escaped) Path')
F('c20-private-parser-in-rm', {'C20': ['R20.1']}, [(RMLIST,
  "                path = parse_path(trashinfo)",
  "                from six.moves.urllib.parse import unquote\n                path = unquote([l for l in trashinfo.split('\\n') if l.startswith('Path=')][-1][len('Path='):])")],
  'trash-rm has its own Path parser (last line wins)')
F('c20-empty-own-date-parser', {'C20': ['R20.1']}, [('trashcli/empty/delete_according_date.py',
  "            deletion_date = parse_deletion_date(contents)",
  "            import datetime\n            deletion_date = None\n            for line in contents.split('\\n'):\n                if line.startswith('DeletionDate='):\n                    try:\n                        deletion_date = datetime.datetime.strptime(line, 'DeletionDate=%Y-%m-%dT%H:%M:%S')\n                    except ValueError:\n                        pass")],
  'trash-empty parses dates on its own (last line wins)')
F('c20-scanner-volume-of-top', {'C20': ['R20.3']}, [('trashcli/trash_dirs_scanner.py',
  "                    yield trash_dir_found, TrashDir(top_trash_dir_path, volume)",
  "                    yield trash_dir_found, TrashDir(top_trash_dir_path, '/')")],
  'scanner pairs $topdir/.Trash/$uid with "/"')
F('c09-suffix-info', {'C09': ['R09.1']}, [(TDR, "            if entry.endswith('.trashinfo') and \\\n", "            if entry.endswith('.info') and \\\n")],
  'readers look for *.info')
F('c09-files-dir-renamed', {'C09': ['R09.1'], 'C11': ['R11.2'], 'C15': ['R15.2']}, [('trashcli/lib/path_of_backup_copy.py',
  "return os.path.join(trash_dir, 'files', basename)", "return os.path.join(trash_dir, 'file', basename)")],
  'payload directory spelled "file"')
F('c09-list-filters-by-date', {'C09': ['R09.2']}, [(LISTACT,
  "                attribute = extractor.extract_attribute(trashinfo_path,\n                                                        contents)\n",
  "                attribute = extractor.extract_attribute(trashinfo_path,\n                                                        contents)\n                from trashcli.parse_trashinfo.parse_deletion_date import parse_deletion_date\n                if parse_deletion_date(contents) is None:\n                    return\n")],
  'trash-list hides undated entries')
F('c09-rm-only-info', {'C09': ['R09.3'], 'C15': ['R15.3']}, [(RM_CAN,
  "        self._file_remover.remove_file_if_exists(backup_copy)\n", "")],
  'trash-rm deletes only the .trashinfo')
F('c09-rm-own-scanner', {'C09': ['R09.4']}, [('trashcli/rm/rm_cmd.py',
  "        for event, args in scanner.scan_trash_dirs(self.environ, uid):",
  "        import os\n        from trashcli.trash_dirs_scanner import TrashDir\n        mine = [(trash_dir_found, TrashDir(os.path.join(v, '.Trash-%s' % uid), v)) for v in self.volumes_listing.list_volumes(self.environ)]\n        for event, args in mine:")],
  'trash-rm enumerates trash directories on its own')
S('c09-constants-hoisted', ['C09', 'C11', 'C15'], [(TDR,
  "        info_dir = os.path.join(path, 'info')\n        for entry in self.dir_reader.entries_if_dir_exists(info_dir):\n            # '.trashinfo', '..trashinfo' and '...trashinfo' would name files/,\n            # files/. and files/.. (the trash directory itself) as their payload\n            if entry.endswith('.trashinfo') and \\\n",
  "        INFO = 'info'\n        SUFFIX = '.trashinfo'\n        info_dir = os.path.join(path, INFO)\n        for entry in self.dir_reader.entries_if_dir_exists(info_dir):\n            if entry.endswith(SUFFIX) and \\\n")],
  'layout constants through locals')

# ------------------------------------------------------------------ C07
FINDER = 'trashcli/put/trash_directories_finder.py'
CREATOR = 'trashcli/put/janitor_tools/trash_dir_creator.py'
F('c07-mode-755', {'C07': ['R07.2']}, [(CREATOR, "self.dir_maker.mkdir_p(candidate.files_dir(), 0o700)", "self.dir_maker.mkdir_p(candidate.files_dir(), 0o755)")],
  'files/ created 0755')
F('c07-alt-before-top', {'C07': ['R07.1']}, [(FINDER,
  """            for path, dir_volume in volume_trash_dir1(volume, uid):
                add_top_trash_dir(path, dir_volume)
            for path, dir_volume in volume_trash_dir2(volume, uid):
                add_alt_top_trash_dir(path, dir_volume)""",
  """            for path, dir_volume in volume_trash_dir2(volume, uid):
                add_alt_top_trash_dir(path, dir_volume)
            for path, dir_volume in volume_trash_dir1(volume, uid):
                add_top_trash_dir(path, dir_volume)""")], '.Trash-$uid tried before .Trash/$uid')
F('c07-top-nocheck', {'C07': ['R07.1'], 'C08': ['R08.3']}, [(FINDER,
  "                          check_type=TopTrashDirCheck,", "                          check_type=NoCheck,")],
  'shared top dir used without the security check')
F('c07-fallback-unconditional', {'C07': ['R07.6']}, [(FINDER,
  "            if home_fallback:\n                for path, dir_volume in home_trash_dir(environ, self.fs):",
  "            if True:\n                for path, dir_volume in home_trash_dir(environ, self.fs):")],
  'fallback candidate appended without the flag')
F('fix6-reverted', {'C07': ['R07.3']}, [('trashcli/lib/trash_dirs.py',
  "    if environ.get('XDG_DATA_HOME'):", "    if 'XDG_DATA_HOME' in environ:")], 'empty XDG_DATA_HOME honoured again')
F('c07-home-relative', {'C07': ['R07.1']}, [(FINDER,
  "                          path_maker_type=PathMakerType.AbsolutePaths,", "                          path_maker_type=PathMakerType.RelativePaths,")],
  'home trash records relative paths')
F('c07-prompt-always', {'C07': ['R07.5']}, [('trashcli/put/core/mode.py',
  "        return self == Mode.mode_interactive and is_path_accessible", "        return is_path_accessible")],
  'prompt without -i')
F('c07-trashdir-plus-home', {'C07': ['R07.1']}, [(FINDER,
  "        else:\n            for path, dir_volume in home_trash_dir(environ, self.fs):\n                add_home_trash(path, dir_volume, Gate.SameVolume)",
  "        if True:\n            for path, dir_volume in home_trash_dir(environ, self.fs):\n                add_home_trash(path, dir_volume, Gate.SameVolume)")],
  '--trash-dir no longer restricts the choice')
S('c07-mode-constant', ['C07', 'C04'], [(CREATOR,
  "            self.dir_maker.mkdir_p(candidate.trash_dir_path, 0o700)\n            self.dir_maker.mkdir_p(candidate.files_dir(), 0o700)\n            self.dir_maker.mkdir_p(candidate.info_dir(), 0o700)",
  "            private = 0o700\n            for d in (candidate.trash_dir_path, candidate.files_dir(), candidate.info_dir()):\n                self.dir_maker.mkdir_p(d, private)")],
  'mode through a constant, directories in a loop')
S('c07-xdg-and-form', ['C07'], [('trashcli/lib/trash_dirs.py',
  "    if environ.get('XDG_DATA_HOME'):", "    if 'XDG_DATA_HOME' in environ and environ['XDG_DATA_HOME']:")], 'membership and truthiness')

# ------------------------------------------------------------------ C08
SECCHK = 'trashcli/put/janitor_tools/security_check.py'
SCANNER = 'trashcli/trash_dirs_scanner.py'
RTD = 'trashcli/restore/trash_directories.py'
F('c08-put-no-symlink-test', {'C08': ['R08.3']}, [(SECCHK,
  "            if self.fs.islink(parent):\n                return Left(TrashDirIsNotSecureBecauseSymLink())\n", "")],
  'write side no longer rejects a symlinked .Trash')
F('c08-read-no-symlink-test', {'C08': ['R08.1']}, [(SCANNER,
  "        if self.reader.is_symlink(parent_trashdir):\n            return top_trash_dir_invalid_because_parent_is_symlink\n        else:\n            return top_trash_dir_valid",
  "        return top_trash_dir_valid")],
  'read side no longer rejects a symlinked .Trash')
F('c08-found-when-not-sticky', {'C08': ['R08.1']}, [(SCANNER,
  "                elif result == top_trash_dir_invalid_because_not_sticky:\n                    yield trash_dir_skipped_because_parent_not_sticky, (\n                        top_trash_dir_path,)",
  "                elif result == top_trash_dir_invalid_because_not_sticky:\n                    yield trash_dir_found, TrashDir(top_trash_dir_path, volume)")],
  'scanner yields a non-sticky top dir as found')
F('c08-sticky-on-uid-dir', {'C08': ['R08.1']}, [(SCANNER,
  "        if not self.reader.is_sticky_dir(parent_trashdir):", "        if not self.reader.is_sticky_dir(path):")],
  'sticky bit tested on the $uid directory instead of its parent')
F('c08-put-sticky-on-candidate', {'C08': ['R08.3']}, [(SECCHK,
  "            if not self.fs.has_sticky_bit(parent):", "            if not self.fs.has_sticky_bit(candidate.trash_dir_path):")],
  'write side tests the sticky bit on the wrong directory')
F('fix7-reverted', {'C08': ['R08.1']}, [(RTD,
  "                if self._can_be_read(path1):\n                    yield path1, volume1",
  "                yield path1, volume1")], 'restore lists the shared top dir unchecked again')
F('fix7-not-wired', {'C08': ['R08.1']}, [('trashcli/restore/main.py',
  "                                             os.environ,\n                                             TopTrashDirRules(\n                                                 FileSystemReader()))",
  "                                             os.environ)")], 'production wiring does not pass the rules')
F('c08-list-swallows-skip', {'C08': ['R08.4']}, [(LISTACT,
  "            elif event == trash_dir_skipped_because_parent_not_sticky:\n                path, = event_args\n                msg = Error(\n                    self.top_trashdir_skipped_because_parent_not_sticky(path))\n                yield msg\n",
  "")], 'trash-list no longer reports the non-sticky skip')
F('c08-islink-follow', {'C08': ['R08.1']}, [(FS,
  "    def is_symlink(self, path):  # type: (str) -> bool\n        return os.path.islink(path)",
  "    def is_symlink(self, path):  # type: (str) -> bool\n        return os.path.realpath(path) != os.path.abspath(path)")],
  'symlink test replaced by a realpath comparison (not a no-follow probe)')
S('c08-checks-reordered', ['C08'], [(SCANNER,
  """        if not self.reader.is_sticky_dir(parent_trashdir):
            return top_trash_dir_invalid_because_not_sticky
        if self.reader.is_symlink(parent_trashdir):
            return top_trash_dir_invalid_because_parent_is_symlink
        else:
            return top_trash_dir_valid""",
  """        if self.reader.is_symlink(parent_trashdir):
            return top_trash_dir_invalid_because_parent_is_symlink
        sticky = self.reader.is_sticky_dir(parent_trashdir)
        if sticky:
            return top_trash_dir_valid
        return top_trash_dir_invalid_because_not_sticky""")],
  'read-side checks reordered')

# ------------------------------------------------------------------ C16
CONTEXT = 'trashcli/put/context.py'
INFOCREATOR = 'trashcli/put/janitor_tools/info_creator.py'
F('c16-break-on-failure', {'C16': ['R16.1']}, [(CONTEXT,
  "                failed_paths.append(path)\n", "                failed_paths.append(path)\n                break\n")],
  'stop at the first failing argument')
F('fix12-reverted', {'C16': ['R16.2']}, [(INFOCREATOR,
  "        except (IOError, OSError, UnicodeError) as error:", "        except (IOError, OSError) as error:")],
  'UnicodeError no longer converted')
F('c16-handler-narrowed', {'C16': ['R16.2'], 'C17': ['R17.2']}, [('trashcli/put/janitor_tools/trash_dir_creator.py',
  "        except (IOError, OSError) as error:", "        except FileNotFoundError as error:")],
  'mkdir errors other than ENOENT escape')
F('c16-failure-not-logged', {'C16': ['R16.3']}, [(FILE_TRASHER,
  "        self.logger.log_put(self.reporter.unable_to_trash_file(\n            trashee, failures, context.environ), context.log_data)\n        return TrashResult.Failure",
  "        return TrashResult.Failure")], 'failure returned without a diagnostic')
F('c16-counter-on-self', {'C16': ['R16.4']}, [(TRASHER,
  "        return self.file_trasher.trash_file(path, context)",
  "        self.seen = getattr(self, 'seen', 0) + 1\n        if self.seen > 100:\n            return TrashResult.Failure\n        return self.file_trasher.trash_file(path, context)")],
  'state carried on self between arguments')
F('c16-failure-not-recorded', {'C16': ['R16.1']}, [(CONTEXT,
  "            if result == TrashResult.Failure:\n                failed_paths.append(path)",
  "            if result == TrashResult.Failure and not failed_paths:\n                failed_paths.append(path)")],
  'only the first failure is recorded (harmless) -- but condition no longer exactly Failure')
F('c16-exit-code-inverted', {'C16': ['R16.1']}, [('trashcli/put/reporting/trash_put_reporter.py',
  "        if not result.any_failure():\n            return EX_OK\n        else:\n            return EX_IOERR",
  "        if result.any_failure():\n            return EX_OK\n        else:\n            return EX_IOERR")],
  'exit code inverted')
F('c16-log-level-debug', {'C16': ['R16.3']}, [('trashcli/put/reporting/trash_put_reporter.py',
  "        return log_str(Level.WARNING, LogTag.trash_failed, messages)", "        return log_str(Level.DEBUG, LogTag.trash_failed, messages)")],
  'failure diagnostic demoted to DEBUG (invisible without -vv)')
S('c16-handler-widened', ['C16', 'C17', 'C01'], [(INFOCREATOR,
  "        except (IOError, OSError, UnicodeError) as error:", "        except Exception as error:")],
  'handler widened to Exception')

# ------------------------------------------------------------------ C17
F('fix8-retry-on-everything', {'C17': ['R17.1']}, [(PERSISTER,
  "                elif e.errno not in (errno.EEXIST, None):\n                    # only a taken name is worth another attempt\n                    raise\n", "")],
  'every OSError retries again')
F('fix8-no-conversion', {'C17': ['R17.2'], 'C16': ['R16.2']}, [(JANITOR,
  "        try:\n            trashed_file = self.executor.execute(persisting_job, log_data)\n        except (IOError, OSError) as error:\n            return make_error(Left(UnableToCreateTrashInfo(error)))\n",
  "        trashed_file = self.executor.execute(persisting_job, log_data)\n")],
  're-raised creation error is not converted into a candidate failure')
F('fix8-no-release', {'C17': ['R17.3']}, [(FS,
  "        except (IOError, OSError):\n            # do not leave an empty or partial file behind\n            os.remove(path)\n            raise\n",
  "        except (IOError, OSError):\n            raise\n")],
  'failed write leaves the empty .trashinfo behind')
F('c17-except-continue', {'C17': ['R17.1']}, [(PERSISTER,
  "                if e.errno == errno.ENAMETOOLONG:\n                    name_too_long = True\n                elif e.errno not in (errno.EEXIST, None):\n                    # only a taken name is worth another attempt\n                    raise\n",
  "                pass\n")],
  'allow-list removed')
F('c17-candidates-generator', {'C17': ['R17.4', 'ANALYSIS-ERROR']}, [(FILE_TRASHER,
  "        for candidate in candidates:", "        import itertools\n        for candidate in itertools.cycle(candidates):")],
  'candidate loop made unbounded')
S('c17-allow-list-set', ['C17'], [(PERSISTER,
  "                elif e.errno not in (errno.EEXIST, None):", "                elif e.errno not in {errno.EEXIST, None}:")],
  'allow-list as a set')

# ------------------------------------------------------------------ C19
TFILES = 'trashcli/restore/trashed_files.py'
F('fix9-reverted', {'C19': ['R19.2']}, [(SORTM,
  "    date_rankking = lambda x: (x.deletion_date is None, x.deletion_date)", "    date_rankking = lambda x: x.deletion_date")],
  'raw date as sort key again')
F('fix10-list-reverted', {'C19': ['R19.1']}, [(LISTACT,
  "        except (IOError, UnicodeError) as e:", "        except IOError as e:")], 'list handles only IOError')
F('fix10-rm-reverted', {'C19': ['R19.1']}, [(RMLIST,
  "            try:\n                trashinfo = self.file_content_reader.contents_of(trashinfo_path)\n                path = parse_path(trashinfo)\n            except (IOError, OSError, ValueError):",
  "            trashinfo = self.file_content_reader.contents_of(trashinfo_path)\n            try:\n                path = parse_path(trashinfo)\n            except ParseError:")],
  'rm reads outside the try')
F('fix10-empty-reverted', {'C19': ['R19.1']}, [(DAD,
  "            try:\n                contents = self.reader.contents_of(trashinfo_path)\n            except (IOError, OSError, ValueError):\n                return False\n",
  "            contents = self.reader.contents_of(trashinfo_path)\n")], 'empty DAYS reads unguarded')
F('fix13-reverted', {'C19': ['R19.1']}, [('trashcli/list/extractors.py',
  "                return '?'", "                raise")], '--size re-raises for a missing payload')
F('c19-restore-valueerror-removed', {'C19': ['R19.1']}, [(TFILES,
  "                except ValueError as e:\n                    yield NonParsableTrashInfo(info_file.path, e)\n", "")],
  'restore no longer handles unparsable entries')
S('c19-restore-extra-outer-handler', ['C19'], [(TFILES,
  """        for event in self.all_trashed_files_internal(trash_dir_from_cli):""",
  """        for event in self._guarded(trash_dir_from_cli):""" ), (TFILES,
  """    def all_trashed_files_internal(self,""",
  """    def _guarded(self, trash_dir_from_cli):
        try:
            for event in self.all_trashed_files_internal(trash_dir_from_cli):
                yield event
        except ValueError:
            pass

    def all_trashed_files_internal(self,""")],
  'harmless wrapper (errors still handled per entry inside)')
F('c19-list-parse-error-unhandled', {'C19': ['R19.1']}, [(LISTACT,
  "            except ParseError:\n                yield Error(self.print_parse_path_error(trashinfo_path))\n            else:",
  "            except KeyError:\n                yield Error(self.print_parse_path_error(trashinfo_path))\n            else:")],
  'missing Path aborts the listing')
F('c19-min-date', {'C19': ['R19.2']}, [('trashcli/restore/handler.py',
  "            for i, trashed_file in enumerate(trashed_files):",
  "            oldest = min(trashed_files, key=lambda t: t.deletion_date)\n            self.output.println('oldest: %s' % oldest.original_location)\n            for i, trashed_file in enumerate(trashed_files):")],
  'min() over possibly-None dates')
S('c19-handler-widened', ['C19'], [(LISTACT,
  "        except (IOError, UnicodeError) as e:", "        except Exception as e:")], 'handler widened')
S('c19-total-key-variant', ['C19'], [(SORTM,
  "    date_rankking = lambda x: (x.deletion_date is None, x.deletion_date)",
  "    import datetime\n    date_rankking = lambda x: x.deletion_date or datetime.datetime.max")], 'total key through a default')

# ------------------------------------------------------------------ global behaviour-preserving variants
ALL = ['C%02d' % i for i in range(1, 21)]
S('global-line-shift', ALL, [
  (FS, "import os\nimport shutil\nimport stat\n", "# reformatted\n\n\nimport os\n\nimport shutil\n\n\nimport stat\n\n"),
  (TRASHER, "class Trasher(SingleTrasher):", "# moved\n\n\n\nclass Trasher(SingleTrasher):"),
  (EMPTIER, "class Emptier:", "\n\n\n# shifted\nclass Emptier:"),
  (RESTORER, "class Restorer:", "\n\n# shifted\n\nclass Restorer:"),
  ('trashcli/trash_dirs_scanner.py', "class TrashDirsScanner:", "\n\n\n\n# shifted\nclass TrashDirsScanner:"),
  (LISTACT, "class ListTrash:", "\n\n\n# shifted\nclass ListTrash:"),
  ('trashcli/rm/rm_cmd.py', "class RmCmd:", "\n\n# shifted\nclass RmCmd:")],
  'every line of the main files moves (comments / blank lines only)')
S('global-rename-lexists', ['C01', 'C04', 'C05', 'C07', 'C16', 'C17', 'C18'], [
  (TRASHER, "        if not self.fs.lexists(path):", "        if not self.fs.entry_exists(path):"),
  ('trashcli/put/fs/real_fs.py', "    def lexists(selfs, path):\n        return os.path.lexists(path)",
   "    def lexists(selfs, path):\n        return os.path.lexists(path)\n\n    def entry_exists(self, path):\n        return self.lexists(path)")],
  'presence probe reached through a differently named wrapper')
S('global-guard-as-method', ['C01', 'C16', 'C18'], [
  (TRASHER, "        if should_skipped_by_specs(path):", "        if self._is_dot_entry(path):"),
  (TRASHER, "    def trash_single(self,", "    def _is_dot_entry(self, path):\n        return should_skipped_by_specs(path)\n\n    def trash_single(self,")],
  'dot-entry guard wrapped in a method')
S('global-restorer-helper', ['C02', 'C06', 'C13', 'C15', 'C18', 'C08'], [
  (RESTORER, "        self.write_fs.move(trashed_file.original_file, trashed_file.original_location)\n        self.write_fs.remove_file(trashed_file.info_file)",
   "        self._bring_back(trashed_file)\n\n    def _bring_back(self, entry):\n        source, target = entry.original_file, entry.original_location\n        self.write_fs.move(source, target)\n        info = entry.info_file\n        self.write_fs.remove_file(info)")],
  'restore effects extracted into a helper with locals')

# ------------------------------------------------------------------ rules added after the
# independent seeding round (own formulations of the mechanisms that were missed)
PORIG = 'trashcli/parse_trashinfo/parse_original_location.py'
F('x-move-copy-function', {'C02': ['R02.2']}, [(FS,
  "        return shutil.move(path, str(dest))", "        return shutil.move(path, str(dest), copy_function=shutil.copyfile)")],
  'cross-device moves copy content only')
F('x-reader-strips-path', {'C02': ['R02.2'], 'C03': ['R03.1'], 'C20': ['R20.2']}, [(PORIG,
  "    return os.path.join(volume_path, path)", "    return os.path.join(volume_path, path.strip())")],
  'restore strips blanks from the decoded Path')
F('x-writer-replace', {'C03': ['R03.5']}, [(ORIGLOC,
  "                parent = parent[len(volume_top_dir + os.path.sep):]",
  "                parent = parent.replace(volume_top_dir + os.path.sep, '', 1) if False else parent.replace(volume_top_dir + os.path.sep, '')")],
  'relative path computed with str.replace')
F('x-writer-bare-prefix', {'C03': ['R03.5']}, [(ORIGLOC,
  "            if (parent == volume_top_dir) or parent.startswith(\n                    volume_top_dir + os.path.sep):",
  "            if parent.startswith(volume_top_dir):")],
  'volume prefix recognised without a component boundary')
F('x-quote-bytes', {'C03': ['R03.1']}, [(FMT, "return url_quote(original_location, '/')",
  "return url_quote(original_location.encode('utf-8', 'surrogateescape'), '/')")],
  'raw bytes quoted: readers cannot invert names that are not UTF-8')
F('x-steal-reservation', {'C04': ['R04.6']}, [(FS,
  """        file_handle = self.open_for_write_in_exclusive_and_create_mode(path)
        try:
            try:""",
  """        try:
            file_handle = self.open_for_write_in_exclusive_and_create_mode(path)
            try:""")],
  'the exclusive create sits inside the try whose handler unlinks the file')
F('x-implicit-trash-dir', {'C07': ['R07.2']}, [(CREATOR,
  "            self.dir_maker.mkdir_p(candidate.trash_dir_path, 0o700)\n", "")],
  'trash directory only created implicitly as a parent')
F('x-scanner-skips-alt', {'C09': ['R09.5']}, [(SCANNER,
  "                if result == top_trash_dir_valid:\n                    yield trash_dir_found, TrashDir(top_trash_dir_path, volume)\n",
  "                if result == top_trash_dir_valid:\n                    yield trash_dir_found, TrashDir(top_trash_dir_path, volume)\n                    continue\n")],
  '.Trash-$uid not scanned where .Trash/$uid is valid')
F('x-filter-memo', {'C12': ['R12.4']}, [(FILTER,
  "    def matches(self, original_location):\n        basename = os.path.basename(original_location)\n",
  "    def matches(self, original_location):\n        basename = os.path.basename(original_location)\n        self.last = getattr(self, 'last', None) or basename\n")],
  'matcher keeps state across entries')
F('x-rm-payload-exists', {'C12': ['R12.5'], 'C15': ['R15.4']}, [(FS,
  "        if os.path.lexists(path): self.remove_file2(path)", "        if os.path.exists(path): self.remove_file2(path)")],
  'payload existence test follows links')
F('x-range-middle-ignored', {'C13': ['R13.5']}, [(RASK,
  "            first, last = index.split(\"-\", 2)", "            parts = index.split(\"-\")\n            first, last = parts[0], parts[len(parts) - 1] if False else parts[-1]")],
  'only first and last piece of a range are examined')
F('x-exit-any', {'C16': ['R16.1']}, [('trashcli/put/core/trash_all_result.py',
  "        return len(self.failed_paths) > 0", "        return any(self.failed_paths)")],
  'exit status from the truthiness of the failed names')
F('x-put-cache-dict', {'C16': ['R16.4']}, [(FILE_TRASHER,
  "        self.volume_of_parent = VolumeOfParent(fs)\n", "        self.volume_of_parent = VolumeOfParent(fs)\n        self._volumes = {}\n"),
  (FILE_TRASHER, "        volume = self._figure_out_volume(path, context.forced_volume)\n",
   "        volume = self._figure_out_volume(path, context.forced_volume)\n        self._volumes[path] = volume\n")],
  'per-run dictionary written for every argument')
F('x-delete-dest-on-failure', {'C17': ['R17.5'], 'C01': ['R01.6']}, [(REAL_FS,
  "            fs.move(path, dest)", "            try:\n                fs.move(path, dest)\n            except OSError:\n                fs.remove_file(dest)\n                raise")],
  'destination deleted when the cross-device fallback fails')
F('x-put-copies-links', {'C18': ['R18.6']}, [(REAL_FS,
  "            fs.move(path, dest)", "            import shutil\n            shutil.copy2(path, dest)\n            fs.remove_file(path)")],
  'hand-rolled cross-device copy')
F('x-aware-dates', {'C19': ['R19.2'], 'C03': ['R03.3']}, [(PINFO,
  """                try:
                    date = datetime.datetime.strptime(
                        line, "DeletionDate=%Y-%m-%dT%H:%M:%S")
                except ValueError:
                    self.found_invalid_date()""",
  """                try:
                    try:
                        date = datetime.datetime.strptime(
                            line, "DeletionDate=%Y-%m-%dT%H:%M:%S")
                    except ValueError:
                        date = datetime.datetime.strptime(
                            line, "DeletionDate=%Y-%m-%dT%H:%M:%S%z")
                except ValueError:
                    self.found_invalid_date()""")],
  'offset-aware dates accepted next to naive ones')
F('x-restore-binary-read', {'C20': ['R20.4']}, [('trashcli/restore/file_system.py',
  "class RealFileReader(RealContentsOf, FileReader):\n    pass",
  "class RealFileReader(FileReader):\n    def contents_of(self, path):\n        with open(path, 'rb') as f:\n            return f.read().decode('utf-8')")],
  'restore reads .trashinfo in binary mode')
S('x-list-own-collector', ['C20'], [('trashcli/parse_trashinfo/maybe_parse_deletion_date.py',
  "    result = Basket(unknown_date)\n", "    class Last(Basket):\n        def collect(self, value):\n            self.collected = value\n    result = Last(unknown_date)\n")],
  'list keeps the date through its own collector class with the same behaviour: nothing '
  'changes while only the first DeletionDate line is ever decoded (was a fire entry of the '
  'brittle collector-identity rule)')
F('x-unquote-strict', {'C19': ['R19.1']}, [(PPATH, "unquote(line[len('Path='):])", "unquote(line[len('Path='):], errors='strict')")],
  'strict decoding error is not a ParseError: list aborts')

# ------------------------------------------------------------------ rules added after the
# second seeding round (own formulations) and regressions of the later fix: commits
PDD = 'trashcli/parse_trashinfo/parse_deletion_date.py'
INFOFILES = 'trashcli/restore/info_files.py'
VOP = 'trashcli/put/fs/volume_of_parent.py'
RARG = 'trashcli/restore/restore_arg_parser.py'
F('y-force-skips-by-access', {'C18': ['R18.1']}, [(TRASHER,
  "        if not self.fs.lexists(path):\n            if context.mode.can_ignore_not_existent_path():",
  "        if not self.fs.exists(path) and context.mode.can_ignore_not_existent_path():\n            return TrashResult.Success\n        if not self.fs.lexists(path):\n            if context.mode.can_ignore_not_existent_path():")],
  '-f skips whatever a link-following test calls absent')
F('y-restore-skips-dotfiles', {'C09': ['R09.6']}, [(INFOFILES,
  "                name = os.path.basename(info_file)\n",
  "                name = os.path.basename(info_file)\n                if name.startswith('.#'):\n                    continue\n")],
  'restore ignores info names starting with ".#"')
F('y-truncate-stem', {'C17': ['R17.6']}, [(PERSISTER,
  "        truncated_basename = basename[0:len(basename) - len(after_basename)]",
  "        truncated_basename = basename[0:len(basename) - len(suffix)]")],
  'too-long names are shortened by the suffix length only (still too long)')
F('y-bounded-read', {'C03': ['R03.4']}, [(FS,
  "def _read_file(path):\n    with open(path) as f:\n        return f.read()",
  "def _read_file(path):\n    with open(path) as f:\n        return f.read(4096)")],
  'readers read the first 4096 characters only')
F('y-strip-trashee-volume', {'C02': ['R02.4']}, [(INFOCREATOR,
  "                                                                candidate.volume)",
  "                                                                os.path.dirname(candidate.parent_dir()))")],
  'relative Path computed against something else than the candidate volume')
F('y-orphans-from-snapshot', {'C10': ['R10.4']}, [(TDR,
  "            if not self.dir_reader.exists(trashinfo_path):\n                yield file_path",
  "            if entry + '.trashinfo' not in known:\n                yield file_path"),
  (TDR, "        files_dir = os.path.join(path, 'files')\n", "        files_dir = os.path.join(path, 'files')\n        known = list(self.dir_reader.entries_if_dir_exists(info_dir))\n")],
  'orphans decided from a listing of info/ taken earlier')
F('fix14-reverted-reader', {'C11': ['R11.5']}, [(TDR,
  "            if entry.endswith('.trashinfo') and \\\n                    entry[:-len('.trashinfo')] not in ('', '.', '..'):",
  "            if entry.endswith('.trashinfo'):")],
  '"...trashinfo" is an entry again (payload = trash dir)')
F('fix14-reverted-restore', {'C11': ['R11.5']}, [(INFOFILES,
  "                if not name.endswith('.trashinfo') or \\\n                        name[:-len('.trashinfo')] in ('', '.', '..'):",
  "                if not name.endswith('.trashinfo'):")],
  'restore accepts "...trashinfo" again')
F('fix15-reverted', {'C13': ['R13.6']}, [(RARG,
  "            path = os.path.normpath(os.path.join(curdir, parsed.path))",
  "            path = os.path.normpath(os.path.join(curdir + os.path.sep, parsed.path))")],
  'scope path glued with a separator again')
F('fix16-reverted', {'C07': ['R07.4'], 'C05': ['R05.3']}, [(VOP,
  "        parent_realpath = ParentRealpathFs(self.fs).parent_realpath(\n            os.path.normpath(path))",
  "        parent_realpath = ParentRealpathFs(self.fs).parent_realpath(path)")],
  'parent of "link/" is the link again')
F('y-shared-basket', {'C19': ['R19.4'], 'C10': ['R10.2']}, [(PDD,
  "def parse_deletion_date(contents):\n    result = Basket()\n    parser = ParseTrashInfo(on_deletion_date=result.collect)\n    parser.parse_trashinfo(contents)\n    return result.collected",
  "_result = Basket()\n_parser = ParseTrashInfo(on_deletion_date=_result.collect)\n\n\ndef parse_deletion_date(contents):\n    _parser.parse_trashinfo(contents)\n    return _result.collected")],
  'one Basket shared by all entries, never reset')
F('y-restore-exists-guard', {'C18': ['R18.5']}, [('trashcli/restore/file_system.py',
  "    def move(self, path, dest):\n        return fs.move(path, dest)",
  "    def move(self, path, dest):\n        if not os.path.exists(path):\n            raise IOError('missing %s' % path)\n        return fs.move(path, dest)")],
  'restore checks the payload with a link-following test')
F('y-restore-decodes-differently', {'C20': ['R20.2'], 'C03': ['R03.1']}, [(PORIG,
  "    path = parse_path(contents)\n", "    from six.moves.urllib.parse import unquote\n    path = unquote([l for l in contents.split('\\n') if l.startswith('Path=')][0][len('Path='):], errors='surrogateescape')\n")],
  'restore decodes the Path with other options')
S('y-degenerate-names-as-set', ['C11', 'C09'], [(TDR,
  "                    entry[:-len('.trashinfo')] not in ('', '.', '..'):",
  "                    entry not in ('.trashinfo', '..trashinfo', '...trashinfo'):")],
  'degenerate names excluded by their full spelling')

# ------------------------------------------------------------------ round 6 rules
ASKING = 'trashcli/restore/restore_asking_the_user.py'
FORMAT_INFO = 'trashcli/put/format_trash_info.py'
GUARD = 'trashcli/empty/guard.py'
F('r6-move-failure-counts-as-trashed', {'C16': ['R16.5']}, [(PUTDIR,
  "            return Left(UnableToMoveFileToTrash(error))",
  "            return Right(None) if isinstance(error, IOError) and not error.args else Left(UnableToMoveFileToTrash(error))")],
  'a failed move can be reported as trashed')
F('r6-index-leading-zeros-stripped', {'C13': ['R13.8']}, [(ASKING,
  "        return int(text)", "        return int(text.lstrip('+0') or '0')")],
  'the piece converted is rewritten: "+" and "000" parse as index 0')
S('r6-index-stripped-first', ['C13'], [(ASKING,
  "        return int(text)", "        return int(text.strip())")],
  'blanks around the piece stripped by hand: same numbers accepted')
F('r6-date-one-hour-back', {'C03': ['R03.3']}, [(FORMAT_INFO,
  '    return deletion_date.strftime("%Y-%m-%dT%H:%M:%S")',
  '    import datetime as _dt\n    return (deletion_date - _dt.timedelta(hours=1)).strftime("%Y-%m-%dT%H:%M:%S")')],
  'the date written is the clock reading minus an offset')
S('r6-date-via-local', ['C03'], [(FORMAT_INFO,
  '    return deletion_date.strftime("%Y-%m-%dT%H:%M:%S")',
  '    moment = deletion_date\n    return moment.strftime("%Y-%m-%dT%H:%M:%S")')],
  'clock reading through a local')
F('r6-generator-handed-on-after-prompt', {'C09': ['R09.8']}, [(GUARD,
  "        trash_dirs_list = list(trash_dirs)  # type: Iterable[TrashDir]",
  "        trash_dirs_list = iter(trash_dirs)  # type: Iterable[TrashDir]")],
  'the interactive branch no longer materialises the generator')
S('r6-generator-materialised-as-tuple', ['C09'], [(GUARD,
  "        trash_dirs_list = list(trash_dirs)  # type: Iterable[TrashDir]",
  "        trash_dirs_list = tuple(trash_dirs)  # type: Iterable[TrashDir]")],
  'materialised as a tuple instead of a list')
