"""C06 -- trash-restore never clobbers an existing destination unless --overwrite."""
from .common import *  # noqa

EXPLANATION = (
    'Guard analysis on the trash-restore graph.  LOC is the destination term of the MOVE.  '
    '(R06.1) every run-consistent path to MOVE(_, LOC) passes "--overwrite is true" or "a '
    'presence probe of that same LOC is false"; (R06.2) following the production wiring '
    'from restore.main, that probe does not follow symlinks (a dangling symlink at LOC is '
    'something at LOC); (R06.3) the refusal raise is caught by a handler that records an '
    'event whose class leads to exit(non-zero), and nothing reachable from that handler '
    'touches the trash or the destination.  Does not decide what --overwrite does to each '
    'destination kind (shutil.move semantics).')
ASSUMPTIONS = ['A4 no concurrent creation of the destination between probe and move']
MINIMUM = {'R06.1': 1, 'R06.2': 1, 'R06.3': 2, 'R06.4': 1, 'R06.5': 1}


# rules of sibling properties that are necessary conditions of this one too
# (evaluated by the sibling module on the same graphs, reported under this property)
ALSO = {'C02': {'R02.2': "restore's effects are mkdir, MOVE, DELETE(info) only"},
 'C18': {'R18.5': 'restore moves with a primitive that fails or replaces as rename does'}}

def check(ctx):
    b = ctx.graph('restore')
    g = b.g
    muts = mutating_effects(b)
    moves = [e for e in muts if e.data['kind'] == 'MOVE']
    ctx.require(moves, 'C06: no MOVE in the restore graph')
    opts = argparse_options(b)
    ow = [o for o in opts if '--overwrite' in o['flags']]
    ctx.require(ow, 'C06: --overwrite option not declared')
    ow_dest = ow[0]['dest']
    ow_true = [n.id for n in assume_nodes(
        b, lambda c, pol, n: pol and is_option_value(c, ow_dest))]
    for m in moves:
        loc_ids = alt_ids(m.data['roles']['dst'])
        absent, probes = [], []
        for n in b.nodes('assume'):
            c, pol = unwrap_not(n.data['cond'], n.data['pol'])
            pn = probe_result_of(c)
            if pn is None:
                continue
            pd = g.n(pn).data
            if pd['role'] == 'presence' and alt_ids(pd['args'][0]) == loc_ids:
                probes.append(g.n(pn))
                if not pol:
                    absent.append(n.id)
        ok = cut_c(b, g.entry, m.id, set(ow_true) | set(absent)) and bool(absent)
        ctx.ob('R06.1', 'MOVE to LOC only under --overwrite or "nothing at LOC"', ok, node=m,
               message='the payload can be moved onto its original location without '
                       '--overwrite and without a negative existence test of that very path')
        seen = set()
        for p in probes:
            if p.id in seen:
                continue
            seen.add(p.id)
            ctx.ob('R06.2', 'the destination probe does not follow symlinks',
                   not p.data['follow'], node=p,
                   message='%s follows symlinks: a dangling symlink at the destination is '
                           'silently replaced by the restored entry' % p.data['prim'])
        # refusal
        refusals = []

        def occupied(c2, pol2):
            pn = probe_result_of(c2)
            return pn is not None and pol2 and g.n(pn).data['role'] == 'presence' and \
                alt_ids(g.n(pn).data['args'][0]) == loc_ids
        for n in b.nodes('raise'):
            if n.data.get('belief'):
                continue
            # (the test may sit in a helper that hands back a message or None)
            if established(b, n.id, occupied):
                refusals.append(n)
        refusals = list({n.id: n for n in refusals}.values())
        ctx.ob('R06.3', 'an occupied destination leads to a refusal (raise)', bool(refusals),
               node=m, message='no refusal is raised when the destination exists')
        for rf in refusals:
            caught = [t for c, h, t, s in rf.data.get('raises', []) if h == 'caught']
            esc = [c for c, h, t, s in rf.data.get('raises', []) if h != 'caught']
            ok = bool(caught) and not esc
            reach = g.reachable_from(caught) if caught else set()
            touched = [e for e in muts if e.id in reach]
            exits = [x for x in b.nodes('ext') if x.data['fn'] == 'sys.exit' and x.id in reach
                     and x.data['args'] and isinstance(strip(x.data['args'][0]), Const)
                     and strip(x.data['args'][0]).value not in (0, None)]
            ctx.ob('R06.3', 'the refusal is caught and leads to exit(non-zero)',
                   ok and bool(exits), node=rf,
                   message='the refusal %s' % ('escapes as a traceback' if not ok else
                                               'does not reach a non-zero exit'))
            ctx.ob('R06.3', 'nothing after a refusal touches the trash or the destination',
                   not touched, node=rf,
                   message='after refusing, restore still performs %s at %s'
                           % (touched[0].data['kind'] if touched else '',
                              touched[0].loc() if touched else ''))
    # ---- R06.4 every selected entry is restored or refused: nothing is skipped silently
    # ---- R06.5 a failing mkdir of the parent aborts the entry, it is not swallowed
    mkdirs = [e for e in muts if e.data['kind'] == 'CREATE_DIR']
    for m in moves:
        loops = [g.n(d) for d in g.dominators(m.id) if g.n(d).kind == 'loop' and d != m.id]
        lp = None
        for cand in loops:           # innermost first
            its = [t for t, l in g.succ[cand.id] if g.n(t).kind == 'iteration']
            body = g.reachable_from(its, blocked=[cand.id] + (
                [cand.data['exit']] if cand.data.get('exit') is not None else []))
            if m.id in body:
                lp = (cand, its)
                break
        if lp is None:
            ctx.ob('R06.4', 'the MOVE sits in the loop over the selected entries', False,
                   node=m, message='no loop over selected entries encloses the MOVE')
            continue
        head, its = lp
        skip = feasible_path(b, its, head.id, blocked=[x.id for x in moves],
                             edge_ok=normal_edge)
        ctx.ob('R06.4', 'every selected entry is moved back or leaves by an error (no silent '
                        'skip)', skip is None, node=m,
               message='an entry selected by the user can be passed over without being '
                       'restored and without an error: exit status 0, no message, the entry '
                       'stays in the trash')
        for e in mkdirs:
            if m.id not in g.reachable_from(e.id, blocked=[head.id]):
                continue
            exc = exc_successors(b, e.id)
            swallowed = bool(exc) and bool(reachable_c(b, exc, [m.id], blocked=[head.id]))
            ctx.ob('R06.5', 'a failed creation of the parent directory aborts the restore of '
                            'that entry', not swallowed, node=e,
                   message='the OSError of %s is swallowed and the MOVE still happens: the '
                           'existence test was made before the directories existed (a Path '
                           'with "missing/.." resolves differently afterwards), so an '
                           'existing destination is replaced without --overwrite'
                           % e.data['prim'])
