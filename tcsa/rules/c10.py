"""C10 -- trash-empty DAYS purges exactly the entries trashed more than DAYS days ago."""
from .common import *  # noqa
from .readroles import *  # noqa
from .c15 import classify

EXPLANATION = (
    'The age rule is touched only through one comparison, so its truth is a finite matter '
    'of operator and operands: (R10.1) the comparison consulted before a dated purge folds '
    'to the canonical strict form deletion_date < now - timedelta(days=D) (accepted '
    'equivalents: flipped operands, now - deletion_date > timedelta(days=D), negated >= / '
    '<=); (R10.2) every run-consistent path to the DELETE of a listed entry passes "DAYS '
    'is None" or "that comparison is true", and the comparison is only evaluated under '
    '"deletion_date is not None" (undated entries are kept); (R10.3) the date operand is '
    'the shared DeletionDate parser\'s value and now comes from TRASH_DATE (same format) or '
    'the clock; (R10.4) an approved entry is deleted whole: payload and .trashinfo twins '
    'under the same approval.  datetime arithmetic itself is trusted.')
ASSUMPTIONS = ['datetime subtraction and comparison behave as documented',
               'argparse type=int for DAYS']
MINIMUM = {'R10.1': 1, 'R10.2': 4, 'R10.3': 2, 'R10.4': 2}


# rules of sibling properties that are necessary conditions of this one too
# (evaluated by the sibling module on the same graphs, reported under this property)
ALSO = {'C19': {'R19.3': ('every *.trashinfo name in info/ is an entry and gets purged (the name '
                   'filter is the suffix test)', 'empty:')},
 'C03': {'R03.4': ('the whole .trashinfo is read: a cut file loses its DeletionDate line and the entry is kept for ever', 'empty reads'),
         'R03.3': 'the first DeletionDate line decides, also when it is invalid'},
 'C09': {'R09.5': 'every trash directory of a volume is purged ($topdir/.Trash-$uid next to '
                  '.Trash/$uid)'}}

def is_timedelta(t, days_ok):
    t = strip(t)
    if isinstance(t, Call) and t.fn in ('datetime.timedelta',) and not t.args:
        kw = dict(t.kwargs)
        return set(kw) == {'days'} and days_ok(kw['days'])
    if isinstance(t, Call) and t.fn == 'datetime.timedelta' and len(t.args) == 1 and \
            not t.kwargs:
        return days_ok(t.args[0])
    return False


def canonical_age(c, pol, is_date, is_now, days_ok):
    """True when (c, pol) means: date < now - timedelta(days=D)."""
    c = strip(c)
    if not isinstance(c, Cmp):
        return False
    op, l, r = c.op, strip(c.left), strip(c.right)
    if not pol:
        op = {'<': '>=', '>=': '<', '>': '<=', '<=': '>'}.get(op)
        if op is None:
            return False

    def limit(t):
        t = strip(t)
        return isinstance(t, Bin) and t.op == '-' and is_now(t.left) and \
            is_timedelta(t.right, days_ok)

    def age(t):
        t = strip(t)
        return isinstance(t, Bin) and t.op == '-' and is_now(t.left) and is_date(t.right)
    if op == '<' and is_date(l) and limit(r):
        return True
    if op == '>' and limit(l) and is_date(r):
        return True
    if op == '>' and age(l) and is_timedelta(r, days_ok):
        return True
    if op == '<' and is_timedelta(l, days_ok) and age(r):
        return True
    return False


def age_operands(a):
    """(comparisons, tested-not-None-in-the-same-expression, shape recognised) for a
    verdict term: a comparison, bool(comparison), or a conjunction of comparisons and
    "date is not None" tests."""
    a = strip(a)
    while is_call(a, 'bool') and len(a.args) == 1:
        a = strip(a.args[0])
    if isinstance(a, Phi) and len(a.alts) == 1:
        return age_operands(a.alts[0][0])
    if isinstance(a, BoolT) and a.op == 'and':
        comps, dated, good = [], False, True
        for v in a.values:
            v0, p0 = unwrap_not(v, True)
            if isinstance(v0, Cmp) and v0.op in ('is not', '!=') and p0 and \
                    is_const(strip(v0.right), None) and has_strptime(v0.left):
                dated = True
                continue
            c2, d2, g2 = age_operands(v)
            comps += c2
            dated = dated or d2
            good = good and g2
        return comps, dated, good
    if isinstance(a, Cmp) and a.op in ('<', '>', '<=', '>='):
        return [a], False, True
    return [a], False, True


def truth_of(a):
    a = strip(a)
    return isinstance(a, Const) and bool(a.value)


def check(ctx):
    b = ctx.graph('empty')
    g = b.g
    opts = argparse_options(b)
    days = [o for o in opts if o['flags'] == ['days']]
    ctx.require(days, 'C10: positional DAYS argument not declared')
    ctx.ob('R10.3', 'DAYS is an optional int argument defaulting to None',
           isinstance(strip(days[0]['type']), ExtRef) and
           strip(days[0]['type']).qualname == 'int' and
           (days[0]['default'] is None or is_const(days[0]['default'], None)),
           node=days[0]['node'], message='DAYS is not declared as type=int, default=None')
    ddest = days[0]['dest']

    def days_ok(t):
        return all(is_option_value(a, ddest) for a in flat(t))

    def is_date(t):
        fl = flat(t)
        return bool(fl) and all(
            (is_call(a, *STRPTIME) and len(a.args) > 1 and
             is_const(strip(a.args[1]), 'DeletionDate=%Y-%m-%dT%H:%M:%S')) or is_const(a, None)
            for a in fl) and any(is_call(a, *STRPTIME) for a in fl)

    def is_now(t):
        fl = flat(t)
        ok = bool(fl)
        for a in fl:
            if is_call(a, 'datetime.datetime.now') and not a.args:
                continue
            if is_call(a, *STRPTIME) and contains(a.args[0],
                                                  lambda x: is_const(x, 'TRASH_DATE')) and \
                    is_const(strip(a.args[1]), '%Y-%m-%dT%H:%M:%S'):
                continue
            ok = False
        return ok

    cmps = []
    for what, n, c in date_uses(ctx, 'empty'):
        cmps.append(n)
    ctx.require(cmps, 'C10: no age comparison found in the empty graph')
    days_none = [n.id for n in assume_nodes(
        b, lambda c, pol, n: isinstance(c, Cmp) and c.op in ('is', '==') and pol and
        is_const(strip(c.right), None) and days_ok(c.left))]
    days_none += [n.id for n in assume_nodes(
        b, lambda c, pol, n: isinstance(c, Cmp) and c.op in ('is not', '!=') and not pol and
        is_const(strip(c.right), None) and days_ok(c.left))]
    canon_true = []
    seen = set()
    for n in cmps:
        c, pol = unwrap_not(n.data['cond'], n.data['pol'])
        # the verdict may reach the test as the return value of a helper: then the
        # condition is a join of the comparison with the constants returned elsewhere
        c0 = strip(c)
        parts = list(alts(c0)) if isinstance(c0, Phi) else [(c, None)]
        consts = [(a, o) for a, o in parts if isinstance(strip(a), Const)]
        raw = [(a, o) for a, o in parts if not isinstance(strip(a), Const)]
        # bool(...) wrappers and "date is not None and <comparison>" conjunctions
        tests, inline_dated, shape_ok = [], set(), True
        for a, o in raw:
            comps, dated, good = age_operands(a)
            shape_ok = shape_ok and good
            for c_ in comps:
                tests.append((c_, o))
                if dated:
                    inline_dated.add(cid(c_))
        ok = bool(tests) and shape_ok and all(
            canonical_age(a, True, is_date, is_now, days_ok) for a, o in tests)
        key = (cid(c))
        if key not in seen:
            seen.add(key)
            ctx.ob('R10.1', 'age comparison is the canonical strict form', ok, node=n,
                   message='the age test is %s: not "deletion_date < now - timedelta(days=D)" '
                           '(wrong operator, unit or operand)' % short(c, 160))
            for a, o in tests:
                a0 = strip(a)
                if isinstance(a0, Cmp):
                    dates = [x for x in (a0.left, a0.right) if has_strptime(x)]
                    ctx.ob('R10.3', 'the date compared comes from the shared DeletionDate '
                                    'parser, now from TRASH_DATE or the clock',
                           any(is_date(x) or (isinstance(strip(x), Bin)) for x in dates),
                           node=n, message='operands of the age test: %s' % short(a, 120))
        # a constant True in the join must be the verdict for "DAYS not given"
        true_ok = all(o is not None and (any(g.dominates(dn, o) for dn in days_none) or
                                         cut_c(b, g.entry, o, days_none))
                      for a, o in consts if truth_of(a))
        if ok and pol and true_ok:
            canon_true.append(n.id)
        if ok:
            # only evaluated for a dated entry
            for a, o in tests:
                site = o if o is not None else n.id
                guarded = cid(a) in inline_dated
                for cc, pp, a_ in guards(b, site):
                    c2, p2 = unwrap_not(cc, pp)
                    if isinstance(c2, Cmp) and c2.op in ('is not', '!=', 'is', '==') and \
                            is_const(strip(c2.right), None) and has_strptime(c2.left):
                        if (c2.op in ('is not', '!=')) == p2:
                            guarded = True
                ctx.ob('R10.2', 'the comparison is evaluated only for a dated entry', guarded,
                       node=n, message='an entry without (valid) DeletionDate reaches the age '
                                       'comparison')
    deletes = mutating_effects(b, 'DELETE')
    listed = [d for d in deletes if classify(d.data['roles']['path'])[0] <= {'payload', 'info'}]
    ctx.require(listed, 'C10: no DELETE of listed entries')
    for d in listed:
        ok = cut_c(b, g.entry, d.id, set(days_none) | set(canon_true))
        ctx.ob('R10.2', 'a listed entry is deleted only when DAYS is None or it is older than '
                        'DAYS', ok, node=d,
               message='an entry can be purged although DAYS was given and the entry is not '
                       '(known to be) older: undated or recent entries are lost')
    from .c11 import rmtree_is_fallback, ALLOWED_DELETE, LINK_SAFE
    for d in listed:
        prim = d.data['prim']
        ok = prim in ALLOWED_DELETE and (prim in LINK_SAFE or rmtree_is_fallback(b, d)[0])
        ctx.ob('R10.4', 'the remover handles every kind of payload (unlink first, rmtree as '
                        'fallback)', ok, node=d,
               message='%s is chosen by a test that follows symlinks: a payload that is a link '
                       'to a directory cannot be removed, its .trashinfo is removed anyway -- '
                       'the entry is not removed whole' % prim)
    # R10.2b the date compared is parsed from this very entry: nothing written while
    # handling one entry outlives its iteration
    from .c19 import entry_iterations
    leaks = {}
    for it in entry_iterations(b):
        head = [p for p, l in g.pred[it.id] if g.n(p).kind == 'loop']
        if head:
            region = g.reachable_from(it.id, blocked=[head[0]])
            for n, o in carried_state_writes(b, region):
                leaks.setdefault((n.func, n.src), n)
    ctx.ob('R10.2', 'the date of one entry cannot be taken for the next (no state outlives an '
                    'entry\'s iteration)', not leaks,
           node=list(leaks.values())[0] if leaks else listed[0],
           message='a value parsed from one .trashinfo is kept in an object shared by all '
                   'entries (%s): an undated entry inherits the date of the previous one and '
                   'is purged' % (list(leaks)[0][1] if leaks else ''))
    orphans = [d for d in deletes if classify(d.data['roles']['path'])[0] == {'orphan'}]
    for d in orphans:
        ok = False
        names = set(cid(x) for a in flat(d.data['roles']['path']) for x in walk(a)
                    if isinstance(x, Elem))
        for c, pol, n in guards(b, d.id):
            c2, p2 = unwrap_not(c, pol)
            pn = probe_result_of(c2)
            if pn is None or p2:
                continue
            pd = g.n(pn).data
            if pd['role'] == 'presence' and pd['args'] and contains(
                    pd['args'][0], lambda x: cid(x) in names) and contains(
                    pd['args'][0], lambda x: is_const(x, '.trashinfo')):
                ok = True
        ctx.ob('R10.4', 'a payload is purged as an orphan only after its own .trashinfo was '
                        'probed absent', ok, node=d,
               message='orphans are decided from something else than a fresh existence test of '
                       'info/<name>.trashinfo (e.g. a listing taken earlier): an entry trashed '
                       'meanwhile loses its payload')
    # R10.4 twins
    approve = {}
    for d in listed:
        kinds, infos = classify(d.data['roles']['path'])
        approve.setdefault(infos, set()).update(kinds)
    for infos, kinds in approve.items():
        ctx.ob('R10.4', 'an approved entry is removed whole (payload and .trashinfo)',
               kinds == {'payload', 'info'},
               construct='trashcli.empty.emptier.Emptier.files_to_delete',
               text='twins %s' % sorted(kinds),
               message='trash-empty removes only the %s of an approved entry' % sorted(kinds))
