"""Shared helpers for rules: canonical term identity, path-shape recognisers,
guard queries."""
from ..terms import *  # noqa
from .. import prims

_intern = {}
_memo = {}


def cid(t):
    """Canonical structural identity of a term: ignores Phi origins, collapses
    single-alternative Phis and str()/six.text_type() wrappers of paths."""
    k = id(t)
    if k in _memo and _memo[k][0] is t:
        return _memo[k][1]
    if isinstance(t, Phi):
        ids = frozenset(cid(a) for a in flat(t))
        if len(ids) == 1:
            r = next(iter(ids))
        else:
            r = _id(('phi', ids))
    elif isinstance(t, (Obj, ListObj, DictObj, GenObj, LambdaRef)):
        r = _id(('heap', id(t)))
    elif isinstance(t, Call):
        if t.fn in ('str', 'six.text_type') and len(t.args) == 1 and not t.kwargs:
            r = cid(t.args[0])
        elif t.fn in ('os.path.join', 'posixpath.join') and not t.kwargs and t.args:
            # join is associative: join(join(a, b), c) is join(a, b, c)
            parts = []
            x = t
            while isinstance(x, Call) and x.fn == t.fn and not x.kwargs and x.args:
                parts[:0] = x.args[1:]
                first = x.args[0]
                while isinstance(first, Phi) and len(first.alts) == 1:
                    first = first.alts[0][0]
                x = first
            parts[:0] = [x]
            r = _id(('call', t.fn, tuple(cid(a) for a in parts), ()))
        else:
            r = _id(('call', t.fn, tuple(cid(a) for a in t.args),
                     tuple((k2, cid(v)) for k2, v in t.kwargs)))
    elif isinstance(t, MCall):
        r = _id(('mcall', t.name, cid(t.recv), tuple(cid(a) for a in t.args),
                 tuple((k2, cid(v)) for k2, v in t.kwargs)))
    elif isinstance(t, Const):
        r = _id(('const', type(t.value).__name__, t.value))
    elif isinstance(t, (ClsRef,)):
        r = _id(('cls', t.cls.qualname))
    elif isinstance(t, EnumVal):
        r = _id(('enum', t.cls.qualname, t.name))
    elif isinstance(t, FuncRef):
        r = _id(('func', t.func.qualname))
    elif isinstance(t, Bound):
        r = _id(('bound', cid(t.recv), t.func.qualname))
    elif isinstance(t, LoopVar):
        r = _id(('loopvar', t.name, t.loop))
    elif isinstance(t, ExcVal):
        r = _id(('exc', t.classes, t.node))
    elif isinstance(t, T) and t._fields:
        parts = []
        for f in t._fields:
            v = getattr(t, f)
            if isinstance(v, T):
                parts.append(cid(v))
            elif isinstance(v, tuple):
                parts.append(tuple(cid(x) if isinstance(x, T) else x for x in v))
            else:
                parts.append(v)
        r = _id((type(t).__name__, tuple(parts)))
    else:
        r = _id(('other', id(t)))
    _memo[k] = (t, r)
    return r


def _id(key):
    try:
        v = _intern.get(key)
    except TypeError:
        key = ('unhashable', repr(key))
        v = _intern.get(key)
    if v is None:
        v = len(_intern) + 1
        _intern[key] = v
    return v


def same(a, b):
    return cid(a) == cid(b)


def strip(t):
    """Remove single-alternative Phis and str() wrappers at the top."""
    while True:
        if isinstance(t, Phi):
            fl = flat(t)
            ids = {}
            for a in fl:
                ids.setdefault(cid(a), a)
            if len(ids) == 1:
                t = next(iter(ids.values()))
                continue
            return t
        if isinstance(t, Call) and t.fn in ('str', 'six.text_type') and \
                len(t.args) == 1 and not t.kwargs:
            t = t.args[0]
            continue
        return t


def flat(t):
    """All alternatives of a value, Phis flattened recursively (top level),
    str() wrappers removed, duplicates (by cid) dropped."""
    out = []
    seen = set()
    stack = [t]
    while stack:
        x = stack.pop()
        if isinstance(x, Phi):
            stack.extend(x.terms())
            continue
        if isinstance(x, Call) and x.fn in ('str', 'six.text_type') and \
                len(x.args) == 1 and not x.kwargs:
            stack.append(x.args[0])
            continue
        c = cid(x)
        if c in seen:
            continue
        seen.add(c)
        out.append(x)
    return out


def alt_ids(t):
    return frozenset(cid(a) for a in flat(t))


def is_call(t, *fns):
    return isinstance(t, Call) and t.fn in fns


JOIN = ('os.path.join', 'posixpath.join')
DIRNAME = ('os.path.dirname', 'posixpath.dirname')
BASENAME = ('os.path.basename', 'posixpath.basename')
TRASHINFO_LEN = len('.trashinfo')


def join_parts(t):
    """Flatten nested os.path.join(...) into its component list."""
    t = strip(t)
    if is_call(t, *JOIN) and not t.kwargs:
        out = []
        first = join_parts(t.args[0]) if t.args else None
        if first is None:
            out.append(t.args[0])
        else:
            out.extend(first)
        out.extend(t.args[1:])
        return out
    return None


def match_pbc(t):
    """I when t = join(dirname(dirname(I)), 'files', basename(I)[:-len('.trashinfo')])
    (however the join is nested)."""
    parts = join_parts(t)
    if parts is None or len(parts) != 3:
        return None
    a, b, c = [strip(x) for x in parts]
    if not (isinstance(b, Const) and b.value == 'files'):
        return None
    if not (is_call(a, *DIRNAME) and is_call(strip(a.args[0]), *DIRNAME)):
        return None
    info = strip(a.args[0]).args[0]
    if not isinstance(c, Sub):
        return None
    base, idx = strip(c.base), c.index
    if not (is_call(base, *BASENAME) and same(base.args[0], info)):
        return None
    if not (isinstance(idx, Slice) and idx.lower is None and idx.step is None and
            isinstance(idx.upper, Const) and idx.upper.value == -TRASHINFO_LEN):
        return None
    return info


def pbc_alts(t):
    """[(alt, info-or-None)] for every alternative of t."""
    return [(a, match_pbc(a)) for a in flat(t)]


def match_listing(t, leaf):
    """D when t = join(join(D, leaf), elem(listdir(join(D, leaf)))) -- an entry of
    the ``leaf`` ('info' / 'files') sub-directory of trash directory D, obtained
    from listing that very directory (however the joins are nested)."""
    parts = join_parts(t)
    if parts is None or len(parts) < 3:
        return None
    e = strip(parts[-1])
    if not (isinstance(e, Elem)):
        return None
    lst = strip(e.container)
    if not (is_call(lst, 'os.listdir') and len(lst.args) == 1):
        return None
    listed = join_parts(lst.args[0])
    if listed is None or [cid(x) for x in listed] != [cid(x) for x in parts[:-1]]:
        return None
    lf = strip(parts[-2])
    if not (isinstance(lf, Const) and lf.value == leaf):
        return None
    if len(parts) == 3:
        return parts[0]
    d = strip(t).args[0] if len(strip(t).args) == 2 else None
    d = strip(d) if d is not None else None
    if d is not None and is_call(d, *JOIN) and len(d.args) == 2:
        return d.args[0]
    return Call(JOIN[0], tuple(parts[:-2]), (), None)


def info_entry(t):
    return match_listing(t, 'info')


def files_entry(t):
    return match_listing(t, 'files')


def path_role(node):
    """The path term an effect / probe node acts on (first path-like role)."""
    d = node.data
    roles = d.get('roles') or {}
    for r in ('path', 'dst', 'src'):
        if roles.get(r) is not None:
            return roles[r]
    if d.get('args'):
        return d['args'][0]
    return None


def transformer_chain(t, root_pred, _depth=0):
    """Set of external function names applied on the way from a sub-term
    satisfying root_pred up to t (union over all occurrences); None when no
    occurrence.  Looks through Phi, join, Sub, Fmt, method calls."""
    if _depth > 60:
        return None
    if root_pred(t):
        return set()
    found = None
    kids = []
    label = None
    if isinstance(t, Call):
        kids = list(t.args) + [v for _, v in t.kwargs]
        label = t.fn
    elif isinstance(t, MCall):
        kids = [t.recv]
        label = 'method:' + t.name
    elif isinstance(t, Phi):
        kids = t.terms()
    elif isinstance(t, Sub):
        kids = [t.base]
        label = 'subscript'
    elif isinstance(t, (Bin,)):
        kids = [t.left, t.right]
    elif isinstance(t, Fmt):
        kids = list(t.args)
    elif isinstance(t, TupleT):
        kids = list(t.items)
    elif isinstance(t, Attr):
        kids = [t.base]
    for k in kids:
        r = transformer_chain(k, root_pred, _depth + 1)
        if r is not None:
            found = (found or set()) | r
            if label:
                found = found | {label}
    return found


def mentions(t, pred):
    return contains(t, pred)


def guards(b, node_id):
    """[(cond term, polarity, assume node)] dominating node_id.  A conjunction known
    to be true (a disjunction known to be false) also contributes each of its operands:
    "if pred(x)" with pred returning "a and b" guards like "if a and b"."""
    out = []
    for n in b.g.assumes_dominating(node_id):
        out.append((n.data['cond'], n.data['pol'], n))
        out.extend(_operands(n.data['cond'], n.data['pol'], n, 0))
    return out


def _operands(c, pol, n, depth):
    c2, p2 = unwrap_not(c, pol)
    out = []
    if isinstance(c2, BoolT) and depth < 6 and \
            ((c2.op == 'and' and p2) or (c2.op == 'or' and not p2)):
        for v in c2.values:
            out.append((v, p2, n))
            out.extend(_operands(v, p2, n, depth + 1))
    if isinstance(c2, Phi) and depth < 6:
        # a verdict handed back by a helper: the constant alternatives of the other
        # truth value are ruled out; when one alternative is left, it is what holds
        from ..iexpr import truth
        left = [a for a in c2.terms() if truth(a) is None or truth(a) == p2]
        if len(left) == 1 and truth(left[0]) is None:
            out.append((left[0], p2, n))
            out.extend(_operands(left[0], p2, n, depth + 1))
    return out


def established(b, node_id, pred, start=None):
    """pred(cond, effective polarity) holds for a test passed on every run-consistent
    path to node_id: a dominating guard (or an operand of a dominating conjunction), or --
    when the test sits in a predicate helper whose verdict is handed back and tested --
    a set of assume nodes that cuts every consistent path from the entry."""
    for c, pol, n in guards(b, node_id):
        c2, p2 = unwrap_not(c, pol)
        if pred(c2, p2):
            return True
    cache = getattr(b, '_assume_ops', None)
    if cache is None:
        cache = b._assume_ops = []
        for n in b.nodes('assume'):
            items = [(n.data['cond'], n.data['pol'])] + \
                [(c, p) for c, p, _ in _operands(n.data['cond'], n.data['pol'], n, 0)]
            cache.append((n.id, [unwrap_not(c, p) for c, p in items]))
    sat = [nid for nid, items in cache if any(pred(c2, p2) for c2, p2 in items)]
    if not sat:
        return False
    return cut_c(b, b.g.entry if start is None else start, node_id, sat)


def probe_result_of(t):
    """The probe node id when t is (a Phi of) the result of a probe call."""
    t = strip(t)
    if isinstance(t, Call) and t.node is not None and t.fn in prims.PROBES:
        return t.node
    return None


def unwrap_not(t, pol=True):
    """Peel 'not' wrappers: returns (inner term, effective polarity)."""
    t = strip(t)
    while isinstance(t, Un) and t.op == 'not':
        t = strip(t.operand)
        pol = not pol
    return t, pol


def assume_nodes(b, pred):
    """Live assume nodes n with pred(inner cond term, effective polarity, n)."""
    out = []
    for n in b.nodes('assume'):
        c, pol = unwrap_not(n.data['cond'], n.data['pol'])
        if pred(c, pol, n):
            out.append(n)
    return out


def exc_successors(b, nid):
    return [t for t, l in b.g.succ[nid] if l and l.startswith('exc:')]


def normal_successors(b, nid):
    return [t for t, l in b.g.succ[nid] if not (l and l.startswith('exc:'))]


def reachable_only_exceptionally(b, src, dst):
    """True when dst can be reached from src's exceptional successors without
    passing through src again."""
    starts = exc_successors(b, src)
    if not starts:
        return False
    return dst in b.g.reachable_from(starts, blocked=[src])


def short(t, n=160):
    s = show(t)
    return s if len(s) <= n else s[:n] + '...'


# ---------------------------------------------------------------------------
# Path feasibility w.r.t. run-invariant conditions.  A path that passes
# assume(c, True) and assume(c, False) for one and the same condition term c
# that cannot change during a run (a pure function of the command line /
# environment: no loop element, no probe or effect result, no heap object) is
# infeasible.  cut_c / reach_c explore the product of the graph with the
# truth assignment of those conditions seen so far.

def _is_invariant(t):
    for x in walk(t):
        if isinstance(x, (Elem, Index, LoopVar, Unknown, Obj, ListObj, DictObj, GenObj,
                          ExcVal, LambdaRef)):
            return False
        if isinstance(x, Call) and (x.fn in prims.PROBES or x.fn in prims.EFFECTS or
                                    x.fn in ('input', 'raw_input', 'datetime.datetime.now')):
            return False
        if isinstance(x, MCall) and x.name in ('read', 'readline', 'readlines', 'pop',
                                               'now', 'today'):
            return False
    return True


def invariant_assumes(b):
    inv = getattr(b, '_inv_assumes', None)
    if inv is not None:
        return inv
    cand = {}
    for n in b.nodes('assume'):
        c, pol = unwrap_not(n.data['cond'], n.data['pol'])
        if isinstance(c, Const):
            continue
        cand.setdefault(cid(c), []).append((n.id, pol, c))
    inv = {}
    for k, lst in cand.items():
        if len(lst) < 2 or len(set(p for _, p, _ in lst)) < 2:
            continue
        if not _is_invariant(lst[0][2]):
            continue
        for nid, pol, _ in lst:
            inv[nid] = (k, pol)
    b._inv_assumes = inv
    return inv


def origin_assumes(b):
    """{assume id: {origin site: truth}} for assume nodes whose condition is a
    join of alternatives produced at distinct sites (return sites / object
    construction sites) and whose truth per alternative is decidable.  On a
    path, the alternative tested is the one whose site was passed last."""
    oa = getattr(b, '_origin_assumes', None)
    if oa is not None:
        return oa
    from ..iexpr import truth
    oa = {}
    cand = {}
    for n in b.nodes('assume'):
        c, pol = unwrap_not(n.data['cond'], n.data['pol'])
        table = {}
        if isinstance(c, Phi):
            for a, o in c.alts:
                if o is None and isinstance(a, Obj):
                    o = a.site
                if o is None:
                    table = None
                    break
                tv = truth(a)
                if o in table and table[o] != tv:
                    table[o] = None
                else:
                    table[o] = tv
        elif isinstance(c, Call) and c.fn == 'isinstance' and len(c.args) == 2 and \
                isinstance(c.args[0], Phi):
            for a, o in c.args[0].alts:
                if o is None and isinstance(a, Obj):
                    o = a.site
                if o is None:
                    table = None
                    break
                tv = b.b.isinstance_of(a, c.args[1])
                if o in table and table[o] != tv:
                    table[o] = None
                else:
                    table[o] = tv
        elif isinstance(c, Cmp) and c.op in ('in', 'not in') and isinstance(c.left, Phi) \
                and not isinstance(c.right, Phi):
            for a, o in c.left.alts:
                if o is None and isinstance(a, Obj):
                    o = a.site
                if o is None:
                    table = None
                    break
                r = b.b.compare('in', a, c.right)
                tv = None
                if isinstance(r, Const):
                    tv = bool(r.value) if c.op == 'in' else not bool(r.value)
                if o in table and table[o] != tv:
                    table[o] = None
                else:
                    table[o] = tv
        elif isinstance(c, Cmp) and c.op in ('==', '!=', 'is', 'is not') and \
                (isinstance(c.left, Phi) != isinstance(c.right, Phi)):
            phi, other = (c.left, c.right) if isinstance(c.left, Phi) else (c.right, c.left)
            for a, o in phi.alts:
                if o is None and isinstance(a, Obj):
                    o = a.site
                if o is None:
                    table = None
                    break
                r = b.b.compare('==' if c.op in ('==', '!=') else 'is', a, other)
                tv = None
                if isinstance(r, Const):
                    tv = bool(r.value) if c.op in ('==', 'is') else not bool(r.value)
                if o in table and table[o] != tv:
                    table[o] = None
                else:
                    table[o] = tv
        else:
            table = None
        if table and any(v is not None for v in table.values()):
            # "the alternative whose site was passed last is the one tested" only holds
            # when no two of the sites can be passed in a row without the test in
            # between (otherwise the alternatives exist side by side: elements of a
            # collection, objects kept in a list ...): validated below
            cand[n.id] = (table, pol)
    # validation in rounds: first with plain reachability, then ignoring paths that
    # contradict the tables validated so far (a failure handed on through two levels
    # of helpers is tested once per level)
    b._origin_assumes = oa
    pending = dict(cand)
    def directly_bound(table):
        # every alternative carries the site that *handed the value over* (a return, the
        # branch of a conditional expression): the value tested is the one produced by the
        # site passed last, however often the producers ran.  Construction sites stand in
        # for alternatives that lost that link (elements of collections)
        return all(b.g.n(s_).kind in ('return', 'assume') for s_ in table)
    for nid in [k for k, (table, pol) in pending.items()
                if len(table) <= 1 or directly_bound(table) or
                _exclusive(b, list(table), k)]:
        oa[nid] = pending.pop(nid)
    progress = bool(oa)
    while pending and progress:
        progress = False
        for nid in list(pending):
            if _exclusive(b, list(pending[nid][0]), nid, feasible=True):
                oa[nid] = pending.pop(nid)
                progress = True
    b._origin_assumes = oa
    return oa


def _exclusive(b, sites, at, feasible=False):
    """No site can be passed after another one without passing ``at`` in between
    (``feasible``: along a path consistent with the origin tables validated so far)."""
    g = b.g
    cache = getattr(b, '_excl_cache', None)
    if cache is None:
        cache = b._excl_cache = {}
    key = (frozenset(sites), at)
    if key in cache and (cache[key] or not feasible):
        return cache[key]
    ok = True
    sset = set(sites)
    # the test is one place in the program: all its graph nodes (both polarities of an
    # assume, the branches of a dispatch) count as "the test"
    an = g.n(at)
    sib = getattr(b, '_sib_index', None)
    if sib is None:
        sib = b._sib_index = {}
        for n in b.nodes('assume', 'dispatch'):
            sib.setdefault((n.kind, n.file, n.line, n.stack), []).append(n.id)
    here = sib.get((an.kind, an.file, an.line, an.stack), [at])
    for s1 in sites:
        nxt = [t for t, l in g.succ[s1]]
        reach = g.reachable_from(nxt, blocked=here)
        hits = [s2 for s2 in sites if s2 in reach]
        if hits and feasible:
            hits = [s2 for s2 in hits if feasible_path(b, [s1], s2, here) is not None
                    and (s2 != s1 or any(feasible_path(b, [t], s1, here) is not None
                                         for t in nxt))]
        if hits:
            ok = False
            break
    if ok or not feasible:
        cache[key] = ok
    return ok


def dispatch_groups(b):
    """{dispatch node: (site of the receiver alternative, group of all sites)}:
    a dynamic dispatch branch is feasible only when the object it is taken for
    is the one whose construction site was passed last."""
    dg = getattr(b, '_dispatch_groups', None)
    if dg is None:
        dg = {}
        for n in b.nodes('dispatch'):
            if n.data.get('group') and n.data.get('alt_site') is not None and \
                    (all(b.g.n(s_).kind in ('return', 'assume') for s_ in n.data['group'])
                     or _exclusive(b, list(n.data['group']), n.id)):
                dg[n.id] = (n.data['alt_site'], n.data['group'])
        b._dispatch_groups = dg
    return dg


def _path_c(b, src, dst, blocked, keys, edge_ok=None):
    """Shortest path src -> dst avoiding blocked that is consistent w.r.t. the
    tracked facts in ``keys``: ('inv', cid) run-invariant conditions and
    ('orig', assume id) origin-correlated conditions (BFS over the product)."""
    inv = invariant_assumes(b)
    oa = origin_assumes(b)
    g = b.g
    inv_keys = set(k for t, k in keys if t == 'inv')
    orig_keys = [k for t, k in keys if t == 'orig']
    site_of = {}
    for a in orig_keys:
        for site in oa[a][0]:
            site_of.setdefault(site, []).append(a)
    dg = dispatch_groups(b)
    disp_keys = set(k for t, k in keys if t == 'disp')
    gsite = {}
    for grp in disp_keys:
        for site in grp:
            gsite.setdefault(site, []).append(grp)

    def step(st, t):
        if t in inv and inv[t][0] in inv_keys:
            k, pol = inv[t]
            if (('i', k), not pol) in st:
                return None
            if (('i', k), pol) not in st:
                st = st | {(('i', k), pol)}
        if t in site_of:
            for a in site_of[t]:
                st = frozenset(x for x in st if x[0] != ('o', a)) | {(('o', a), t)}
        if t in gsite:
            for grp in gsite[t]:
                st = frozenset(x for x in st if x[0] != ('d', grp)) | {(('d', grp), t)}
        if t in dg and dg[t][1] in disp_keys:
            want, grp = dg[t]
            for x in st:
                if x[0] == ('d', grp) and x[1] != want:
                    return None
        if t in oa and t in orig_keys:
            table, pol = oa[t]
            for x in st:
                if x[0] == ('o', t):
                    tv = table.get(x[1])
                    if tv is not None and tv != pol:
                        return None
        return st
    if isinstance(src, int):
        src = [src]
    # only nodes from which dst can still be reached matter (backward slice, cached)
    bw = getattr(b, '_bw_cache', None)
    if bw is None:
        bw = b._bw_cache = {}
    bkey = (dst, frozenset(blocked), edge_ok)
    if bkey not in bw:
        if edge_ok is None:
            bw[bkey] = g.reachable_from(dst, blocked=blocked, forward=False)
        else:
            bw[bkey] = g.reachable_from(dst, blocked=blocked, forward=False, labels=edge_ok)
    can_reach = bw[bkey]
    prev = {}
    queue = []
    for s0 in src:
        if s0 in blocked or s0 not in can_reach:
            continue
        st0 = step(frozenset(), s0)
        if st0 is None:
            continue
        start = (s0, st0)
        if start not in prev:
            prev[start] = None
            queue.append(start)
    i = 0
    while i < len(queue):
        cur = queue[i]
        i += 1
        x, st = cur
        if x == dst:
            out = []
            while cur is not None:
                out.append(cur[0])
                cur = prev[cur]
            return out[::-1]
        for t, l in g.succ[x]:
            if t in blocked or t not in can_reach:
                continue
            if edge_ok is not None and not edge_ok(l):
                continue
            st2 = step(st, t)
            if st2 is None:
                continue
            nxt = (t, st2)
            if nxt not in prev:
                prev[nxt] = cur
                queue.append(nxt)
    return None


def normal_edge(label):
    return not (label and label.startswith('exc:'))


def feasible_path(b, src, dst, blocked=(), edge_ok=None):
    """A path src -> dst avoiding ``blocked`` that does not contradict itself,
    or None.  Two kinds of contradiction are recognised: (a) both polarities of
    one run-invariant condition; (b) passing the site that produced a value and
    then the assume that tests the opposite truth of that value.  Facts are
    tracked on demand (refinement loop), so the product stays small."""
    inv = invariant_assumes(b)
    oa = origin_assumes(b)
    dgr = dispatch_groups(b)
    blocked = set(blocked)
    keys = set()
    while True:
        path = _path_c(b, src, dst, blocked, keys, edge_ok)
        if path is None:
            return None
        seen = {}
        clash = None
        for idx, x in enumerate(path):
            if x in inv:
                k, pol = inv[x]
                if seen.get(k, pol) != pol:
                    clash = ('inv', k)
                    break
                seen[k] = pol
            if x in dgr and ('disp', dgr[x][1]) not in keys:
                want, grp = dgr[x]
                last = None
                for y in path[:idx]:
                    if y in grp:
                        last = y
                if last is not None and last != want:
                    clash = ('disp', grp)
                    break
            if x in oa and ('orig', x) not in keys:
                table, pol = oa[x]
                last = None
                for y in path[:idx]:
                    if y in table:
                        last = y
                if last is not None and table[last] is not None and table[last] != pol:
                    clash = ('orig', x)
                    break
        if clash is None:
            return path
        keys.add(clash)
        if len(keys) > 14:
            return path      # give up refining: report (sound for a must-rule)


def cut_c(b, src, dst, cutset):
    """Every run-consistent path src -> dst passes through a node of cutset."""
    cutset = set(cutset)
    if src in cutset or dst in cutset:
        return True
    return feasible_path(b, src, dst, cutset) is None


READ_ONLY_KINDS = ('OPEN_READ',)


def mutating_effects(b, *kinds):
    return [e for e in b.effects(*kinds) if e.data['kind'] not in READ_ONLY_KINDS]


def argparse_options(b):
    """Declarations parser.add_argument(...) found in the graph:
    [{flags, dest, action, default, const, type, node}]."""
    out = []
    for n in b.nodes('mcall'):
        d = n.data
        if d['name'] != 'add_argument':
            continue
        flags = [a.value for a in d['args'] if isinstance(a, Const) and
                 isinstance(a.value, str)]
        kw = d['kwargs']
        dest = kw.get('dest')
        if isinstance(dest, Const):
            dest = dest.value
        else:
            longs = [f for f in flags if f.startswith('--')]
            base = (longs or flags or ['?'])[0]
            dest = base.lstrip('-').replace('-', '_')
        out.append({'flags': flags, 'dest': dest, 'action': kw.get('action'),
                    'default': kw.get('default'), 'const': kw.get('const'),
                    'type': kw.get('type'), 'nargs': kw.get('nargs'), 'node': n,
                    'choices': kw.get('choices')})
    return out


def is_option_value(t, dest):
    """t is <parse_args(...) result>.<dest>."""
    t = strip(t)
    if isinstance(t, Attr) and t.name == dest:
        base = strip(t.base)
        return isinstance(base, MCall) and base.name in ('parse_args', 'parse_known_args')
    return False


def last_dominating(b, nid, kind):
    for d in b.g.dominators(nid):
        if d != nid and b.g.n(d).kind == kind:
            return d
    return None


def dom_c(b, a, n):
    """Every run-consistent path entry -> n passes a (feasibility-aware dominance)."""
    if b.g.dominates(a, n):
        return True
    return cut_c(b, b.g.entry, n, [a])


def reachable_c(b, starts, targets, blocked=()):
    """Targets (node ids) reachable from starts along a run-consistent path."""
    plain = b.g.reachable_from(list(starts), blocked=blocked)
    out = []
    for t in targets:
        if t in plain and feasible_path(b, list(starts), t, blocked) is not None:
            out.append(t)
    return out


def join_part_lists(t):
    """All flattened component lists of a (Phi of) nested os.path.join terms."""
    out = []
    for a in flat(t):
        if is_call(a, *JOIN) and not a.kwargs and a.args:
            for head in join_part_lists(a.args[0]):
                out.append(head + list(a.args[1:]))
        else:
            out.append([a])
    return out


def carried_state_writes(b, region):
    """Writes (attribute stores, item stores, appends) inside ``region`` into heap objects
    that were created outside it and are live: state that outlives the region."""
    out = []
    for n in b.nodes('store', 'store-item', 'append'):
        if n.id not in region or n.data.get('comprehension'):
            continue
        tgt = n.data.get('obj') if n.kind == 'store' else \
            (n.data.get('base') if n.kind == 'store-item' else n.data.get('list'))
        for o in flat(tgt) if tgt is not None else []:
            site = getattr(o, 'site', None)
            if isinstance(o, (Obj, ListObj, DictObj)) and site is not None and \
                    site not in region and (site in b.live or b.g.n(site).kind == 'new'
                                            or True):
                out.append((n, o))
                break
    return out


def generators_iterated_twice(b):
    """[(first loop, second loop, generator qualname)]: two loops that consume one and the
    same generator object with a consistent path from the end of the first to the
    second -- the second iteration finds the generator exhausted and sees nothing."""
    by_gen = {}
    for lp in b.nodes('loop'):
        gen = lp.data.get('genobj')
        if lp.data.get('kind') == 'generator' and gen is not None and lp.id in b.live:
            by_gen.setdefault(id(gen), []).append(lp)
    out = []
    for loops in by_gen.values():
        if len(loops) < 2:
            continue
        for l1 in loops:
            ex = l1.data.get('exit')
            if ex is None:
                continue
            for l2 in loops:
                if l2.id == l1.id:
                    continue
                # not the re-entry of one loop through an enclosing loop: that makes a
                # fresh generator object at run time only if its creation is inside too
                blocked = [l1.id]
                for _ in range(8):
                    pth = feasible_path(b, [ex], l2.id, blocked=blocked)
                    if pth is None:
                        break
                    # the value iterated at a dispatch is the alternative handed over at
                    # alt_site: a path that passed the hand-over of another alternative
                    # of the same group last does not iterate this generator there
                    clash = None
                    for i, nid in enumerate(pth):
                        dn = b.g.n(nid)
                        if dn.kind != 'dispatch' or not dn.data.get('group') or \
                                dn.data.get('alt_site') is None:
                            continue
                        grp = set(str(s_) for s_ in dn.data['group'])
                        last = [str(x) for x in pth[:i] if str(x) in grp]
                        if last and last[-1] != str(dn.data['alt_site']):
                            clash = [x for x in pth[:i] if str(x) == last[-1]][-1]
                            break
                    if clash is None:
                        out.append((l1, l2, l1.data.get('gen')))
                        break
                    blocked.append(clash)
    return out
