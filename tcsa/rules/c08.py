"""C08 -- an insecure shared $topdir/.Trash is never used, for writing, reading or purging."""
from .common import *  # noqa
from .readroles import *  # noqa
from .putroles import PutRoles, is_left_test, success_tested_before, candidate_sites
from .c20 import dir_kind

EXPLANATION = (
    'For all five commands: every use of a trash directory of the kind '
    '$topdir/.Trash/$uid -- a put attempt (mkdir/create/move), reading or deleting '
    'entries listed from it -- must be reached only along run-consistent paths on which '
    'the three facts of the spec were established on its parent $topdir/.Trash: it is a '
    'directory, it is not a symbolic link (no-follow probe), and it has the sticky bit '
    '(R08.1, which also gives sibling agreement R08.2 because the same three facts are '
    'demanded of the write side and of every read side).  (R08.3) on the write side the '
    'facts reach the effects through the Either result of the security check: its success '
    'alternatives are produced only under "no check required" or under the three facts.  '
    '(R08.4) the events by which the scanner skips such a directory reach stderr in '
    'trash-list, and every branch that refutes one of the three facts (of an existing '
    '$topdir/.Trash/$uid) is followed by a stderr report on every consistent way to the '
    'next evaluation of that test or to the end -- whatever else is found on the volume.  '
    'Races between check and use are not decided.')
ASSUMPTIONS = ['A4 no change of $topdir/.Trash between check and use',
               'os.stat(...).st_mode & S_ISVTX is the sticky-bit test']
MINIMUM = {'R08.1': 6, 'R08.3': 2, 'R08.4': 2}
FACTS = ('isdir', 'notlink', 'sticky')


# rules of sibling properties that are necessary conditions of this one too
# (evaluated by the sibling module on the same graphs, reported under this property)
ALSO = {'C16': {'R16.4': 'the security verdict is established per use, not remembered across '
                  'arguments'}}

def facts_of(b, cond, pol, parent_ids):
    """Facts about the directory with the given ids implied by (cond, pol)."""
    c, pol = unwrap_not(cond, pol)
    out = set()
    if isinstance(c, BoolT):
        if (c.op == 'and' and pol) or (c.op == 'or' and not pol):
            for v in c.values:
                out |= facts_of(b, v, pol, parent_ids)
        return out
    if isinstance(c, Phi):
        sets = [facts_of(b, a, pol, parent_ids) for a in c.terms()]
        return set.intersection(*sets) if sets else set()
    pn = probe_result_of(c)
    if pn is not None:
        pd = b.g.n(pn).data
        if pd['args'] and alt_ids(pd['args'][0]) <= parent_ids and alt_ids(pd['args'][0]):
            if pd['role'] == 'isdir' and pol:
                out.add('isdir')
            if pd['role'] == 'islink' and not pd['follow'] and not pol:
                out.add('notlink')
        return out
    if isinstance(c, Cmp) and c.op in ('==', '!='):
        eff = pol if c.op == '==' else not pol

        def sticky_side(t):
            t = strip(t)
            return isinstance(t, Bin) and t.op == '&' and any(
                isinstance(strip(x), ExtRef) and strip(x).qualname == 'stat.S_ISVTX'
                for x in (t.left, t.right)) and any(
                isinstance(strip(x), Attr) and strip(x).name == 'st_mode' and
                is_call(strip(strip(x).base), 'os.stat', 'os.lstat') and
                alt_ids(strip(strip(x).base).args[0]) <= parent_ids
                for x in (t.left, t.right))
        for side, other in ((c.left, c.right), (c.right, c.left)):
            if sticky_side(side):
                o = strip(other)
                if isinstance(o, ExtRef) and o.qualname == 'stat.S_ISVTX' and eff:
                    out.add('sticky')
                if is_const(o, 0) and not eff:
                    out.add('sticky')
    return out


def fact_nodes(b, parent_ids):
    """{fact: [assume node ids establishing it]}."""
    out = {f: [] for f in FACTS}
    for n in b.nodes('assume'):
        for f in facts_of(b, n.data['cond'], n.data['pol'], parent_ids):
            out[f].append(n.id)
    return out


def parent_ids_of(D):
    ids = set()
    for d in flat(D):
        d0 = strip(d.args[0]) if is_call(d, 'os.path.normpath') else d
        jp = join_parts(d0)
        ids.add(cid(Call('os.path.dirname', (d0,), (), None)))
        ids.add(cid(Call('os.path.dirname', (d,), (), None)))
        if jp and len(jp) == 3:
            ids.add(cid(Call('os.path.join', (jp[0], jp[1]), (), None)))
    return ids


def check(ctx):
    # ------------------------------------------------------------ readers
    for cmd in ('list', 'empty', 'rm', 'restore'):
        b = ctx.graph(cmd)
        g = b.g
        uses = []
        for e in b.effects():
            p = path_role(e)
            if p is None:
                continue
            for a in flat(p):
                i = match_pbc(a)
                D = info_entry(i if i is not None else a)
                if D is None:
                    D = files_entry(a)
                if D is not None and dir_kind(D) == '$topdir/.Trash/$uid':
                    uses.append((e, D))
        seen = set()
        ctx.require(uses, 'R08.1: %s never touches $topdir/.Trash/$uid (anchor vanished)' % cmd)
        for e, D in uses:
            key = (e.id, cid(D))
            if key in seen:
                continue
            seen.add(key)
            pids = parent_ids_of(D)
            fn = fact_nodes(b, pids)
            # the entry acted on is an element of a listing of that directory: it can
            # only exist if that listing ran, so the facts are demanded of the listing
            # (data dependence); a use that does not come from a listing is checked
            # itself
            listings = set()
            for a in flat(path_role(e)):
                i = match_pbc(a)
                Dx = info_entry(i if i is not None else a)
                if Dx is None:
                    Dx = files_entry(a)
                if Dx is None or cid(Dx) != cid(D):
                    continue
                for x in walk(a):
                    if isinstance(x, Call) and x.fn == 'os.listdir' and x.node is not None:
                        listings.add(x.node)
            targets = sorted(listings) or [e.id]
            missing = [f for f in FACTS
                       if not fn[f] or not all(cut_c(b, g.entry, t_, fn[f])
                                               for t_ in targets)]
            ctx.ob('R08.1', '%s: use of $topdir/.Trash/$uid only after its parent was found '
                            'to be a sticky, non-symlink directory' % cmd, not missing, node=e,
                   construct='%s uses $topdir/.Trash/$uid' % cmd,
                   text='%s %s' % (e.data['kind'], e.func),
                   message='%s: %s of an entry under $topdir/.Trash/$uid is reachable without '
                           'establishing %s for $topdir/.Trash: entries stored under an '
                           'insecure shared trash directory are shown / restored / deleted'
                           % (cmd, e.data['kind'], missing))
    # ------------------------------------------------------------ writer
    r = PutRoles(ctx)
    b, g = r.b, r.g
    cand_paths = []
    for n, a in candidate_sites(b):
        if dir_kind(a.fields['trash_dir_path']) == '$topdir/.Trash/$uid':
            cand_paths.append(a)
    ctx.require(cand_paths, 'R08.3: put has no $topdir/.Trash/$uid candidate')
    for cand in cand_paths:
        ct = strip(cand.fields.get('check_type', NONE))
        ctx.ob('R08.3', 'the $topdir/.Trash/$uid candidate requires the security check',
               isinstance(ct, EnumVal) and ct.name != 'NoCheck', construct='put candidate',
               text='check_type %s' % short(ct),
               message='the shared top trash dir candidate carries %s' % short(ct))
    pids = set()
    for cand in cand_paths:
        pids |= parent_ids_of(cand.fields['trash_dir_path'])
    # all candidates are merged in one attempt: the facts are demanded of the success
    # alternatives of the security check that are not produced under "no check"
    fn = fact_nodes(b, set(pids) | all_candidate_parent_ids(b))
    effects = r.mkdirs + r.opens + r.moves
    cache = {}
    for e in effects:
        ok = False
        detail = 'no Either result of a security check is tested before it'
        if not any(dir_kind(c_.fields['trash_dir_path']) == '$topdir/.Trash/$uid'
                   for c_ in r.candidates_for(e.id)):
            ctx.ob('R08.3', 'put: this copy of the effect never runs for the shared top '
                            'trash directory', True, node=e)
            continue
        for rt in success_tested_before(b, r, e, cache):
            x = rt.data['value']
            rights = [a for a in flat(x) if isinstance(a, Obj) and a.cls.name == 'Right']
            sites = [a.site for a in rights if a.site is not None]
            if not sites:
                continue
            verdicts = []
            for s in sites:
                nocheck = any(
                    isinstance(unwrap_not(cc, pp)[0], Cmp) and unwrap_not(cc, pp)[1] and
                    any(isinstance(strip(z), EnumVal) and strip(z).name == 'NoCheck'
                        for z in (unwrap_not(cc, pp)[0].left, unwrap_not(cc, pp)[0].right))
                    for cc, pp, aa in guards(b, s))
                have = [f for f in FACTS if any(g.dominates(x_, s) for x_ in fn[f]) or
                        (fn[f] and cut_c(b, r.arg_iteration, s, fn[f]))]
                verdicts.append('nocheck' if nocheck else
                                ('facts' if len(have) == 3 else 'missing:%s' % sorted(
                                    set(FACTS) - set(have))))
            if 'facts' in verdicts and all(v in ('facts', 'nocheck') for v in verdicts):
                ok = True
            elif any(v.startswith('missing') for v in verdicts) and 'nocheck' in verdicts:
                detail = 'a success of the security check is produced with %s' % [
                    v for v in verdicts if v.startswith('missing')]
        ctx.ob('R08.3', 'put: effects follow a security check that succeeds only under "no '
                        'check required" or the three facts', ok, node=e,
               message='%s of trash-put: %s' % (e.data['kind'], detail))
    # ------------------------------------------------------------ R08.4
    b = ctx.graph('list')
    g = b.g
    skips = []
    for y in b.nodes('yield'):
        v = y.data.get('value')
        for a in flat(v) if v is not None else []:
            if isinstance(a, TupleT) and a.items:
                for ev in flat(a.items[0]):       # (the event may come out of a table)
                    ev = strip(ev)
                    val = ev.fields.get('_value') if isinstance(ev, Obj) else None
                    if isinstance(val, Const) and 'skipped' in str(val.value):
                        skips.append((y, val.value))
    ctx.ob('R08.4', 'the scanner announces skipped top trash directories',
           len(set(v for y, v in skips)) >= 2, construct='trash_dirs_scanner',
           text='skip events',
           message='the scanner no longer yields events for insecure $topdir/.Trash')
    reads = b.effects('OPEN_READ')
    listing_stacks = set()
    for y in b.nodes('yield'):
        if any(g.dominates(y.id, e.id) for e in reads):
            listing_stacks.add(y.stack)
    for y, val in skips:
        if y.stack not in listing_stacks:
            continue      # another mode of the command (e.g. --trash-dirs), not the listing
        errs = [o for o in b.nodes('output') if g.dominates(y.id, o.id) and any(
            isinstance(s_, ExtRef) and s_.qualname == 'sys.stderr'
            for s_ in flat(o.data['stream']))]
        region = g.reachable_from([t for t, _ in g.succ[y.id]])
        ctx.ob('R08.4', 'trash-list reports %s on stderr' % val, bool(errs), node=y,
               message='trash-list ignores the event %s silently' % val)
    # every refutation of one of the three facts for $topdir/.Trash (of an existing
    # $topdir/.Trash/$uid) is reported before the scan goes on: no consistent way from
    # the refuting branch to the next evaluation of the same test, or to the end, that
    # avoids stderr -- whatever else is found on the volume
    errs_all = [o.id for o in b.nodes('output') if any(
        isinstance(s_, ExtRef) and s_.qualname == 'sys.stderr'
        for s_ in flat(o.data['stream']))]
    tops = {}
    for e in b.effects():
        p = path_role(e)
        for a in (flat(p) if p is not None else []):
            i = match_pbc(a)
            D = info_entry(i if i is not None else a)
            if D is None:
                D = files_entry(a)
            if D is not None and dir_kind(D) == '$topdir/.Trash/$uid':
                tops[cid(D)] = D
    refuting = []
    for D in tops.values():
        pids = parent_ids_of(D)
        for n in b.nodes('assume'):
            if n.stack and not any(n.stack[:len(st)] == st or st[:len(n.stack)] == n.stack
                                   for st in listing_stacks):
                continue
            lost = facts_of(b, n.data['cond'], not n.data['pol'], pids)
            if lost and not facts_of(b, n.data['cond'], n.data['pol'], pids):
                refuting.append((n, sorted(lost)))
    # a refuted conjunct of "isdir(p) and sticky(p)" inside a predicate helper is tested
    # again as the helper's verdict: the verdict's refuting branch is the one checked
    def all_operands(t, depth=0):
        t = strip(t)
        out = []
        if isinstance(t, BoolT) and depth < 6:
            for v in t.values:
                out.append(cid(v))
                out.extend(all_operands(v, depth + 1))
        elif isinstance(t, Phi) and depth < 6:
            for a in t.terms():
                out.extend(all_operands(a, depth + 1))
        return out
    compound = set()
    for m in b.nodes('assume'):
        compound.update(all_operands(unwrap_not(m.data['cond'], m.data['pol'])[0]))
    refuting = [(n, lost) for n, lost in refuting
                if cid(unwrap_not(n.data['cond'], n.data['pol'])[0]) not in compound]
    if tops and not refuting:
        ctx.ob('R08.4', 'trash-list tests the three facts on the parent of $topdir/.Trash/$uid',
               False, construct=b.func.qualname, text='refuting branches',
               message='no branch of trash-list refutes "directory / not a link / sticky" for '
                       'the parent of $topdir/.Trash/$uid: an insecure directory cannot be '
                       'told from a secure one, nor reported')
    seen_ref = set()
    for n, lost in refuting:
        if n.id in seen_ref:
            continue
        seen_ref.add(n.id)
        again = [x.id for x in b.nodes('assume')
                 if (x.file, x.line, x.stack) == (n.file, n.line, n.stack)
                 and x.data.get('test_src') == n.data.get('test_src')]
        probes = set()
        for x in again:
            for t in walk(g.n(x).data['cond']):
                if isinstance(t, Call) and t.node is not None and \
                        g.n(t.node).kind in ('probe', 'effect', 'ext'):
                    probes.add(t.node)
        silent = None
        for tgt in sorted(probes) + [g.exit]:
            silent = feasible_path(b, [n.id], tgt, blocked=errs_all)
            if silent is not None:
                break
        ctx.ob('R08.4', 'a $topdir/.Trash found insecure is reported on stderr before the '
                        'scan goes on', silent is None, node=n,
               message='trash-list can skip a $topdir/.Trash/$uid whose parent fails "%s" '
                       'without saying so on stderr (the report depends on something else '
                       'than the insecurity)' % '/'.join(lost))


def all_candidate_parent_ids(b):
    ids = set()
    for n, a in candidate_sites(b):
        for d in flat(a.fields['trash_dir_path']):
            ids.add(cid(Call('os.path.dirname', (d,), (), None)))
    # the merged candidate's parent_dir() term
    for n in b.nodes('ret'):
        f = n.data.get('func')
        v = n.data.get('value')
        if f is not None and v is not None and f.name == 'parent_dir':
            ids |= alt_ids(v)
    return ids
