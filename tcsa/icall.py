"""Calls: dispatch, inlining of repo functions, instantiation, externals."""
import ast

from .icore import Env, Frame, MAX_DEPTH
from .iexpr import SuperRef, truth
from .model import ClassInfo, FuncInfo, canon_exc, EXC_PARENT
from . import prims
from .terms import *  # noqa

# method names of builtin types: never resolved by name to repo classes unless
# the receiver is known to be a repo object
BUILTIN_METHOD_NAMES = {
    'append', 'extend', 'insert', 'pop', 'remove', 'sort', 'reverse', 'index', 'count',
    'get', 'items', 'keys', 'values', 'update', 'setdefault', 'copy', 'clear',
    'split', 'rsplit', 'splitlines', 'join', 'strip', 'lstrip', 'rstrip', 'lower', 'upper',
    'startswith', 'endswith', 'replace', 'format', 'encode', 'decode', 'find', 'rfind',
    'partition', 'rpartition', 'isdigit', 'title', 'capitalize', 'zfill', 'ljust', 'rjust',
    'write', 'read', 'readline', 'readlines', 'close', 'flush', 'fileno', 'isatty',
    'strftime', 'strptime', 'isoformat', 'now', 'today', 'total_seconds',
    'add_argument', 'parse_args', 'error', 'add', 'discard', 'union',
    'warning', 'info', 'debug', 'critical', 'exception', 'log',
    '__enter__', '__exit__', '__iter__', '__next__',
}


STR_RESULT_METHODS = {
    'split', 'rsplit', 'splitlines', 'strip', 'lstrip', 'rstrip', 'lower', 'upper', 'format',
    'join', 'encode', 'decode', 'partition', 'rpartition', 'readline', 'readlines', 'read',
    'group', 'groups', 'title', 'capitalize', 'casefold', 'zfill', 'ljust', 'rjust',
    'expandtabs', 'translate', 'swapcase', 'center'}

TOTAL_CONSUMERS = {'list', 'tuple', 'sorted', 'set', 'frozenset', 'sum', 'any', 'all', 'max',
                   'min', 'dict', 'len'}


class CallMixin(object):
    # --------------------------------------------------------------- ev_Call
    def ev_Call(self, e):
        fn = self.ev(e.func)
        args = []
        total = (isinstance(e.func, ast.Name) and e.func.id in TOTAL_CONSUMERS) or \
            (isinstance(e.func, ast.Attribute) and e.func.attr in ('join', 'extend', 'update'))
        for a in e.args:
            if isinstance(a, ast.GeneratorExp) and total:
                # consumed entirely on the spot: same as the list comprehension
                args.append(self.comprehension(a, [a.elt], 'list'))
                continue
            if isinstance(a, ast.Starred):
                v = self.ev(a.value)
                if isinstance(v, TupleT):
                    args.extend(v.items)
                elif isinstance(v, ListObj) and not v.open:
                    args.extend(v.items)
                else:
                    args.append(Elem(v))
                    self.diag('star-args', 'call with *args of unknown length', e)
            else:
                args.append(self.ev(a))
        kwargs = {}
        for k in e.keywords:
            v = self.ev(k.value)
            if k.arg is None:
                if isinstance(v, DictObj):
                    for kk, vv in v.entries:
                        if isinstance(kk, Const):
                            kwargs[kk.value] = vv
                else:
                    self.diag('star-kwargs', 'call with **kwargs of unknown keys', e)
            else:
                kwargs[k.arg] = v
        if self.cur is None:
            return Unknown('dead-call')
        return self.call(fn, args, kwargs, e)

    def call(self, fn, args, kwargs, node):
        if isinstance(fn, Phi):
            return self.call_alternatives(fn, args, kwargs, node)
        if isinstance(fn, FuncRef):
            env = fn.closure
            return self.call_function(fn.func, args, kwargs, node, closure=env)
        if isinstance(fn, Bound):
            return self.call_function(fn.func, [fn.recv] + list(args), kwargs, node)
        if isinstance(fn, LambdaRef):
            return self.call_lambda(fn, args, kwargs, node)
        if isinstance(fn, ClsRef):
            return self.instantiate(fn.cls, args, kwargs, node)
        if isinstance(fn, ExtRef):
            return self.ext_call(fn.qualname, args, kwargs, node)
        if isinstance(fn, ExtBound):
            return self.method_on_value(fn.recv, fn.name, args, kwargs, node)
        if isinstance(fn, Attr):
            return self.method_on_value(fn.base, fn.name, args, kwargs, node)
        if isinstance(fn, Call) and fn.fn == 'functools.partial' and fn.args:
            # partial(f, *a, **k)(*b, **l) = f(*a, *b, **k, **l)
            kw = dict(fn.kwargs)
            kw.update(kwargs)
            return self.call(fn.args[0], list(fn.args[1:]) + list(args), kw, node)
        if isinstance(fn, Call) and fn.fn in ('staticmethod', 'classmethod') and \
                len(fn.args) == 1:
            return self.call(fn.args[0], list(args), kwargs, node)
        if isinstance(fn, Obj):
            mem = self.find_member(fn.cls, '__call__')
            if mem and mem[0] == 'method':
                return self.call_function(mem[2], [fn] + list(args), kwargs, node)
        if isinstance(fn, Unknown) and fn.why == 'callback-argument':
            # a callable handed to our callback by the external caller (rmtree's onerror
            # receives the function that failed): opaque, but it is one of the caller's own
            n = self.emit('ext', node, {'fn': '?callable-argument', 'args': list(args),
                                        'kwargs': dict(kwargs)})
            self.route_raise(n, ['OSError'])
            return Call('?callable-argument', tuple(args), tuple(sorted(kwargs.items())), n)
        return self.unresolved_call(fn, args, kwargs, node)

    def call_alternatives(self, fn, args, kwargs, node):
        start = self.cur
        end = self.join_node(node, 'dispatch')
        results = []
        snap = dict(self.frame.env.vars)
        envs = []
        seen = set()
        sites = []
        for a, o in fn.alts:
            recv = a.recv if isinstance(a, Bound) else a
            st = o if o is not None else getattr(recv, 'site', None)
            sites.append(st)
        group = tuple(sorted(set(x for x in sites if x is not None))) \
            if all(x is not None for x in sites) and len(set(sites)) == len(sites) else None
        for (a, o), st in zip(fn.alts, sites):
            key = a
            try:
                if key in seen:
                    continue
                seen.add(key)
            except TypeError:
                pass
            self.cur = start
            self.frame.env.vars = dict(snap)
            if self.cur is None:
                break
            self.emit('dispatch', node, {'target': a, 'alt_site': st if group else None,
                                         'group': group})
            r = self.call(a, list(args), dict(kwargs), node)
            if self.cur is not None:
                results.append((r, self.cur))
                envs.append(self.frame.env.vars)
                self.goto(end)
        self.frame.env.vars = self.merge_envs(envs) if envs else snap
        self.land(end)
        if not results:
            return Unknown('dead-dispatch')
        return join(*results)

    def unresolved_call(self, fn, args, kwargs, node):
        self.stats['unresolved'] += 1
        n = self.emit('unresolved', node, {'what': show(fn), 'args': list(args)})
        self.drain_generators(args, kwargs, node)
        return Unknown('unresolved-call:%s' % show(fn))

    # ---------------------------------------------------------------- inlining
    def bind_params(self, func, args, kwargs, node):
        """Map parameter names to argument terms; None when arity does not fit."""
        a = func.node.args
        params = [x.arg for x in a.posonlyargs + a.args]
        defaults = a.defaults
        bound = {}
        args = list(args)
        if len(args) > len(params) and a.vararg is None:
            return None
        for i, pname in enumerate(params):
            if i < len(args):
                bound[pname] = args[i]
        extra = args[len(params):]
        if a.vararg is not None:
            bound[a.vararg.arg] = TupleT(tuple(extra))
        kw_extra = {}
        for k, v in kwargs.items():
            if k in params or k in [x.arg for x in a.kwonlyargs]:
                if k in bound:
                    return None
                bound[k] = v
            elif a.kwarg is not None:
                kw_extra[k] = v
            else:
                return None
        if a.kwarg is not None:
            bound[a.kwarg.arg] = DictObj([(Const(k), v) for k, v in kw_extra.items()])
        # defaults
        first_default = len(params) - len(defaults)
        for i, pname in enumerate(params):
            if pname not in bound:
                if i >= first_default:
                    bound[pname] = self.eval_default(func, defaults[i - first_default])
                else:
                    return None
        for x, d in zip(a.kwonlyargs, a.kw_defaults):
            if x.arg not in bound:
                if d is None:
                    return None
                bound[x.arg] = self.eval_default(func, d)
        self.filter_by_declared_types(func, bound)
        return bound

    def declared_types(self, func):
        """{param: ClassInfo} from per-argument / signature type comments and
        annotations that name a repo class."""
        cache = self.__dict__.setdefault('_decl_cache', {})
        if func in cache:
            return cache[func]
        out = {}
        node = func.node
        if isinstance(node, ast.Lambda):
            cache[func] = out
            return out
        params = node.args.posonlyargs + node.args.args + node.args.kwonlyargs
        texts = {}
        for a in params:
            if a.annotation is not None:
                texts[a.arg] = ast.unparse(a.annotation)
            elif a.type_comment:
                texts[a.arg] = a.type_comment
        tc = getattr(node, 'type_comment', None)
        if tc and '->' in tc and not tc.strip().startswith('(...)'):
            try:
                sig = ast.parse(tc.strip(), mode='func_type')
                names = [a.arg for a in params]
                if names and names[0] in ('self', 'cls') and func.cls is not None and \
                        len(sig.argtypes) == len(names) - 1:
                    names = names[1:]
                if len(sig.argtypes) == len(names):
                    for n_, t_ in zip(names, sig.argtypes):
                        texts.setdefault(n_, ast.unparse(t_))
            except SyntaxError:
                pass
        for pname, txt in texts.items():
            txt = txt.strip().strip('\'"')
            try:
                e = ast.parse(txt, mode='eval').body
            except SyntaxError:
                continue
            if isinstance(e, (ast.Name, ast.Attribute)):
                r = self.static_class_expr(func.module, e, func.cls)
                if isinstance(r, ClassInfo):
                    out[pname] = r
        cache[func] = out
        return out

    def filter_by_declared_types(self, func, bound):
        """Drop alternatives of an argument that contradict the declared repo
        class of the parameter (the repository type-checks with mypy)."""
        decl = self.declared_types(func)
        for pname, cls in decl.items():
            v = bound.get(pname)
            if not isinstance(v, Phi):
                continue
            keep = [(a, o) for a, o in v.alts
                    if not isinstance(a, Obj) or self.is_subclass(a.cls, cls)]
            if keep and len(keep) < len(v.alts):
                bound[pname] = join(*keep)

    def eval_default(self, func, expr):
        if isinstance(expr, ast.Constant):
            return Const(expr.value)
        return self.eval_detached(func.module, expr, 'default of ' + func.qualname)

    def call_function(self, func, args, kwargs, node, closure=None):
        if self.cur is None:
            return Unknown('dead-call')
        bound = self.bind_params(func, args, kwargs, node)
        if bound is None:
            n = self.emit('arity-error', node, {
                'func': func.qualname, 'nargs': len(args), 'kwargs': sorted(kwargs),
                'args': list(args)})
            self.diag('arity', 'call of %s with %d positional and %s keyword arguments '
                               'does not fit its signature'
                      % (func.qualname, len(args), sorted(kwargs)), node)
            self.route_raise(n, ['TypeError'])
            self.cur = None
            return Unknown('arity-error')
        if func in self.active or self.frame.depth > MAX_DEPTH:
            self.diag('recursion', 'recursive call of %s cut' % func.qualname, node)
            self.emit('recursion-cut', node, {'func': func.qualname})
            return Unknown('recursion:' + func.qualname)
        line = getattr(node, 'lineno', 0)
        stack = self.frame.stack + ((self.frame.qualname, self.frame.module.relpath, line),)
        env = Env(closure)
        env.vars.update(bound)
        fr = Frame(func, func.module, env, stack, self.frame.depth + 1)
        fr.caught = []
        if func.is_generator:
            fr.is_gen = True
            g = GenObj(func, fr, self.cur)
            self.gen_objs.append(g)
            return g
        self.stats['inlined'] += 1
        return self.run_frame(fr, node, bound)

    def run_frame(self, fr, node, bound):
        func = fr.func
        self.emit('call', node, {'func': func, 'args': dict(bound)})
        saved = (self.frame, self.loops)
        ret = self.join_node(node, 'return-of:' + func.qualname)
        self.g.n(ret).kind = 'ret'
        self.g.n(ret).data['func'] = func
        fr.ret_target = ret
        self.frame = fr
        self.loops = []
        self.active.append(func)
        try:
            body = func.node.body
            self.exec_block(body)
            if self.cur is not None:
                # implicit return None
                end = self.emit('return', None, {'value': NONE, 'implicit': True},
                                line=getattr(func.node, 'end_lineno', func.node.lineno))
                fr.returns.append((NONE, end))
                self.goto(ret)
        finally:
            self.active.pop()
            self.frame, self.loops = saved
        self.land(ret)
        if not fr.returns:
            return Unknown('no-return')
        val = join(*fr.returns)
        self.g.n(ret).data['value'] = val
        return val

    def call_lambda(self, lam, args, kwargs, node):
        fi = lam.func
        bound = self.bind_params(fi, args, kwargs, node)
        if bound is None:
            n = self.emit('arity-error', node, {'func': fi.qualname, 'nargs': len(args),
                                                'kwargs': sorted(kwargs), 'args': list(args)})
            self.route_raise(n, ['TypeError'])
            self.cur = None
            return Unknown('arity-error')
        if fi.node in [getattr(f, 'node', None) for f in self.active]:
            return Unknown('recursion:lambda')
        line = getattr(node, 'lineno', 0)
        stack = self.frame.stack + ((self.frame.qualname, self.frame.module.relpath, line),)
        env = Env(lam.frame.env)
        env.vars.update(bound)
        fr = Frame(fi, lam.frame.module, env, stack, self.frame.depth + 1)
        self.emit('call', node, {'func': fi, 'args': dict(bound)})
        saved = (self.frame, self.loops)
        self.frame = fr
        self.loops = []
        self.active.append(fi)
        try:
            v = self.ev(lam.node.body)
            self.emit('return', lam.node.body, {'value': v})
        finally:
            self.active.pop()
            self.frame, self.loops = saved
        return v

    # ------------------------------------------------------------ instantiate
    def instantiate(self, cls, args, kwargs, node):
        if self.cur is None:
            return Unknown('dead')
        if self.is_enum(cls):
            # Enum lookup by value
            return Unknown('enum-lookup:' + cls.name)
        site = self.emit('new', node, {'cls': cls})
        obj = Obj(cls, site)
        new = self.find_member(cls, '__new__')
        if new and new[0] == 'method':
            # class with its own __new__ (e.g. tuple subclass)
            r = self.call_function(new[2], [ClsRef(cls)] + list(args), kwargs, node)
            for a in terms_of(r):
                if isinstance(a, Obj) and a.site is None:
                    object.__setattr__(a, 'site', site)
            return r
        init = self.find_member(cls, '__init__')
        fields = self.nt_fields(cls)
        if init and init[0] == 'method':
            self.call_function(init[2], [obj] + list(args), kwargs, node)
            self.g.n(site).data['obj'] = obj
            return obj
        if fields is not None:
            if len(args) > len(fields) or any(k not in fields for k in kwargs):
                n = self.emit('arity-error', node, {'func': cls.qualname, 'nargs': len(args),
                                                    'kwargs': sorted(kwargs), 'args': list(args)})
                self.route_raise(n, ['TypeError'])
                self.cur = None
                return Unknown('arity-error')
            for f, a in zip(fields, args):
                obj.fields[f] = a
            for k, v in kwargs.items():
                obj.fields[k] = v
            missing = [f for f in fields if f not in obj.fields]
            if missing:
                n = self.emit('arity-error', node, {'func': cls.qualname, 'nargs': len(args),
                                                    'kwargs': sorted(kwargs), 'args': list(args)})
                self.route_raise(n, ['TypeError'])
                self.cur = None
                return Unknown('arity-error')
            self.g.n(site).data['obj'] = obj
            return obj
        # no __init__ in the repo: exception classes keep their args
        if self.is_exception_class(cls):
            obj.fields['args'] = TupleT(tuple(args))
        elif args or kwargs:
            ext_tuple = any(isinstance(k, str) and k in ('tuple', 'str')
                            for k in self.mro(cls))
            if not ext_tuple:
                n = self.emit('arity-error', node, {'func': cls.qualname, 'nargs': len(args),
                                                    'kwargs': sorted(kwargs), 'args': list(args)})
                self.route_raise(n, ['TypeError'])
                self.cur = None
                return Unknown('arity-error')
            obj.fields['_value'] = args[0] if args else NONE
        self.g.n(site).data['obj'] = obj
        return obj

    # ------------------------------------------------------------ generators
    def drain_generators(self, args, kwargs, node):
        for v in list(args) + list(kwargs.values()):
            for a in terms_of(v):
                if isinstance(a, GenObj):
                    self.iterate(a, lambda val: None, set(), node)

    def materialise(self, it, node, kind='list'):
        """list(it) / sorted(it) / tuple(it): consume an iterable into a ListObj."""
        if isinstance(it, Phi) and len(it.alts) == 1:
            it = it.alts[0][0]
        if isinstance(it, ListObj) and not any(isinstance(x, GenObj) for x in it.items):
            return ListObj(list(it.items), it.open, self.cur, kind)
        if isinstance(it, TupleT):
            return ListObj(list(it.items), False, self.cur, kind)
        out = ListObj([], True, self.cur, kind)
        # a generator whose body is a straight line of yields gives an exact sequence
        exact = kind == 'list' and isinstance(it, GenObj) and not it.consumed and \
            isinstance(getattr(it.func, 'node', None), ast.FunctionDef) and all(
                isinstance(st, (ast.Expr, ast.Assign, ast.Pass)) and
                not (isinstance(st, ast.Expr) and isinstance(st.value, ast.YieldFrom)) and
                not (isinstance(st, ast.Assign) and any(
                    isinstance(x, (ast.Yield, ast.YieldFrom)) for x in ast.walk(st)))
                for st in it.func.node.body)

        def per_item(val):
            if exact or not any(val is x or val == x for x in out.items):
                out.items.append(val)
        self.iterate(it, per_item, set(), node)
        if exact and out.items:
            out.open = False
        if not out.items:
            out.items.append(Elem(it)) if not isinstance(it, (GenObj, Phi)) else None
        return out

    # -------------------------------------------------------------- externals
    def ext_call(self, q, args, kwargs, node):
        self.stats['external'] += 1
        h = getattr(self, 'ext_' + q.replace('.', '_'), None)
        if h is not None:
            r = h(args, kwargs, node)
            if r is not NotImplemented:
                return r
        if canon_exc(q) in EXC_PARENT or q in ('shutil.Error',):
            return Call(canon_exc(q), tuple(args), tuple(sorted(kwargs.items())), None)
        if q in prims.EFFECTS:
            kind, roles = prims.EFFECTS[q]
            data = {'prim': q, 'kind': kind, 'args': list(args), 'kwargs': dict(kwargs),
                    'roles': {r: (args[i] if i < len(args) else kwargs.get(r))
                              for r, i in roles.items()}}
            if kind == 'OPEN':
                mode = data['roles'].get('mode')
                if mode is None:
                    data['kind'] = 'OPEN_READ'
                elif isinstance(mode, Const) and isinstance(mode.value, str) and \
                        not any(ch in mode.value for ch in 'wax+'):
                    data['kind'] = 'OPEN_READ'
                else:
                    data['kind'] = 'OPEN_WRITE'
            n = self.emit('effect', node, data)
            res = Call(q, tuple(args), tuple(sorted(kwargs.items())), n)
            data['result'] = res
            quiet = q == 'shutil.rmtree' and (
                truth(kwargs.get('ignore_errors', args[1] if len(args) > 1 else Const(False)))
                is not False or 'onerror' in kwargs or 'onexc' in kwargs or len(args) > 2)
            if quiet:
                data['errors_ignored'] = True       # failures are swallowed by the callee
            else:
                self.route_raise(n, prims.MAY_RAISE.get(q, ()))
            self.drain_generators(args, kwargs, node)
            self.run_callbacks(args, kwargs, node)
            return res
        if q in prims.PROBES:
            follow, role = prims.PROBES[q]
            data = {'prim': q, 'follow': follow, 'role': role, 'args': list(args),
                    'kwargs': dict(kwargs)}
            n = self.emit('probe', node, data)
            res = Call(q, tuple(args), tuple(sorted(kwargs.items())), n)
            data['result'] = res
            self.route_raise(n, prims.MAY_RAISE.get(q, ()))
            return res
        mod = q.split('.')[0]
        if mod in ('os', 'shutil') and q not in prims.NON_MUTATING and \
                q not in prims.PATH_PURE and not q.startswith('os.path.'):
            self.emit('unclassified-prim', node, {'prim': q})
            self.diag('unclassified-prim', '%s is not in the primitive tables' % q, node)
        data = {'fn': q, 'args': list(args), 'kwargs': dict(kwargs)}
        pure = q in prims.PATH_PURE
        n = self.emit('ext', node, data) if not pure else None
        res = Call(q, tuple(args), tuple(sorted(kwargs.items())), None if pure else n)
        if n is not None:
            data['result'] = res
            self.route_raise(n, prims.MAY_RAISE.get(q, ()))
            if q in ('urllib.parse.unquote', 'urllib.parse.unquote_plus') and \
                    is_const(kwargs.get('errors'), 'strict'):
                self.route_raise(n, ['UnicodeDecodeError'])
            if q in prims.SOFT_RAISE_CALLS:
                self.route_raise(n, prims.SOFT_RAISE_CALLS[q], soft=True)
            if q.split('.')[0] == 're' and args and q.split('.')[-1] in (
                    'sub', 'subn', 'match', 'search', 'fullmatch', 'compile', 'split',
                    'findall', 'finditer'):
                # a pattern assembled from run-time text that is not re.escape()d may be
                # no valid regular expression
                def raw_text(t):
                    if isinstance(t, Const):
                        return False
                    if isinstance(t, Call) and t.fn == 're.escape':
                        return False
                    if isinstance(t, (Bin, Fmt, Phi)):
                        return any(raw_text(c) for c in children(t))
                    return True
                if raw_text(args[0]):
                    self.route_raise(n, ['Exception'])
            self.drain_generators(args, kwargs, node)
            self.run_callbacks(args, kwargs, node)
        return res

    def run_callbacks(self, args, kwargs, node):
        """Repo callables handed to an external function (onerror=, key=, callbacks) may
        be called by it: their bodies are analysed on a side branch, with unknown
        arguments."""
        cbs = []
        for v in list(args) + list(kwargs.values()):
            for a in terms_of(v):
                if isinstance(a, (FuncRef, Bound, LambdaRef)) and a not in cbs:
                    cbs.append(a)
        if not cbs or self.cur is None:
            return
        start = self.cur
        end = self.join_node(node, 'after-callbacks')
        self.goto(end)
        snap = dict(self.frame.env.vars)
        for cb in cbs:
            fi = cb.func
            if fi in self.active:
                continue
            a = getattr(fi.node, 'args', None)
            npos = len(a.posonlyargs + a.args) - len(a.defaults) if a is not None else 0
            if isinstance(cb, Bound):
                npos -= 1
            self.cur = start
            self.frame.env.vars = dict(snap)
            self.call(cb, [Unknown('callback-argument')] * max(npos, 0), {}, node)
            if self.cur is not None:
                self.goto(end)
        self.frame.env.vars = snap
        self.land(end)

    # builtins with semantics -------------------------------------------------
    def ext_isinstance(self, args, kwargs, node):
        if len(args) != 2:
            return NotImplemented
        val, clsv = args
        if isinstance(val, Phi):
            rs = [self.isinstance_of(a, clsv) for a in val.terms()]
            if all(r is True for r in rs):
                return TRUE
            if all(r is False for r in rs):
                return FALSE
            return Call('isinstance', (val, clsv), (), None)
        r = self.isinstance_of(val, clsv)
        if r is None:
            return Call('isinstance', (val, clsv), (), None)
        return Const(r)

    def ext_type(self, args, kwargs, node):
        if len(args) == 1:
            v = args[0]
            if isinstance(v, Obj):
                return ClsRef(v.cls)
            if isinstance(v, Phi) and all(isinstance(a, Obj) for a in v.terms()):
                return join(*[(ClsRef(a.cls), o) for a, o in v.alts])
            return Call('type', (v,), (), None)
        return NotImplemented

    def ext_len(self, args, kwargs, node):
        if len(args) == 1:
            v = args[0]
            if isinstance(v, ListObj) and not v.open:
                return Const(len(v.items))
            if isinstance(v, TupleT):
                return Const(len(v.items))
            if isinstance(v, Const) and isinstance(v.value, (str, bytes, tuple)):
                return Const(len(v.value))
            for a in terms_of(v):
                if isinstance(a, GenObj):
                    n = self.emit('type-error', node, {
                        'what': 'len() of a generator', 'value': a})
                    self.diag('type-error', 'len() applied to generator %s'
                              % a.func.qualname, node)
                    self.route_raise(n, ['TypeError'])
            return Call('len', (v,), (), None)
        return NotImplemented

    def ext_list(self, args, kwargs, node):
        if not args:
            return ListObj([], False, self.cur)
        return self.materialise(args[0], node, 'list')

    def ext_tuple(self, args, kwargs, node):
        if not args:
            return TupleT(())
        if isinstance(args[0], TupleT):
            return args[0]
        return self.materialise(args[0], node, 'tuple')

    def ext_set(self, args, kwargs, node):
        if not args:
            return ListObj([], False, self.cur, 'set')
        return self.materialise(args[0], node, 'set')

    ext_frozenset = ext_set

    def ext_sorted(self, args, kwargs, node):
        if not args:
            return NotImplemented
        src = args[0]
        lst = self.materialise(src, node, 'sorted')
        key = kwargs.get('key')
        elem = join(*lst.items) if lst.items else Elem(src)
        keyterm = elem
        if key is not None and not (isinstance(key, Const) and key.value is None):
            keyterm = self.call(key, [elem], {}, node)
        n = self.emit('sort', node, {'key': keyterm, 'elem': elem, 'list': lst,
                                     'keyfn': key, 'source': src})
        return lst

    def ext_min(self, args, kwargs, node):
        return self._minmax('min', args, kwargs, node)

    def ext_max(self, args, kwargs, node):
        return self._minmax('max', args, kwargs, node)

    def _minmax(self, which, args, kwargs, node):
        if len(args) == 1:
            lst = self.materialise(args[0], node, 'list')
            elem = join(*lst.items) if lst.items else Elem(args[0])
            key = kwargs.get('key')
            keyterm = self.call(key, [elem], {}, node) if key is not None else elem
            self.emit('sort', node, {'key': keyterm, 'elem': elem, 'list': lst,
                                     'keyfn': key, 'source': args[0], 'which': which})
            return elem
        return Call(which, tuple(args), tuple(sorted(kwargs.items())), None)

    def ext_enumerate(self, args, kwargs, node):
        return Call('enumerate', tuple(args), tuple(sorted(kwargs.items())), None)

    def ext_reversed(self, args, kwargs, node):
        if args and isinstance(args[0], (ListObj, TupleT)):
            items = list(args[0].items)[::-1]
            return ListObj(items, getattr(args[0], 'open', False), self.cur)
        return Call('reversed', tuple(args), (), None)

    def ext_functools_partial(self, args, kwargs, node):
        return Call('functools.partial', tuple(args), tuple(sorted(kwargs.items())), None)

    def ext_staticmethod(self, args, kwargs, node):
        return Call('staticmethod', tuple(args), (), None)

    def ext_classmethod(self, args, kwargs, node):
        return Call('classmethod', tuple(args), (), None)

    def ext_itertools_chain(self, args, kwargs, node):
        return Call('itertools.chain', tuple(args), (), None)

    def ext_itertools_chain_from_iterable(self, args, kwargs, node):
        return Call('itertools.chain.from_iterable', tuple(args), (), None)

    def ext_itertools_starmap(self, args, kwargs, node):
        if len(args) != 2:
            return NotImplemented
        return Call('itertools.starmap', tuple(args), (), None)      # lazy: see iterate

    def ext_next(self, args, kwargs, node):
        """next(it[, default]): the iterator is advanced to its first element."""
        if not args:
            return NotImplemented
        it = args[0]
        end = self.join_node(node, 'next')
        results = []

        def first(val):
            # (the alternative is tied to *this* hand-over, not to where the element
            # was produced: the default competes with the yield, not with that site)
            if isinstance(val, Phi):
                val = Phi([(a, self.cur) for a, _ in val.alts])
            results.append((val, self.cur))
            self.goto(end)
        self.iterate(it, first, set(), node)
        if self.cur is not None:
            if len(args) > 1:
                results.append((args[1], self.cur))
                self.goto(end)
            else:
                n = self.emit('raise', node, {'classes': ('StopIteration',)})
                self.route_raise(n, ['StopIteration'], soft=True)
                self.cur = None
        self.land(end)
        if not results:
            return Unknown('next-of-nothing')
        return join(*results)

    def ext_iter(self, args, kwargs, node):
        return args[0] if len(args) == 1 else NotImplemented

    def ext_str(self, args, kwargs, node):
        if len(args) == 1 and isinstance(args[0], Const):
            return Const(str(args[0].value))
        return Call('str', tuple(args), (), None)

    def ext_bool(self, args, kwargs, node):
        if len(args) == 1:
            tv = truth(args[0])
            if tv is not None:
                return Const(tv)
        return Call('bool', tuple(args), (), None)

    def ext_map(self, args, kwargs, node):
        if len(args) == 2:
            fn, it = args
            out = ListObj([], True, self.cur, 'list')

            def per_item(val):
                r = self.call(fn, [val], {}, node)
                if not any(r is x or r == x for x in out.items):
                    out.items.append(r)
            if isinstance(it, TupleT) or (isinstance(it, ListObj) and not it.open):
                object.__setattr__(out, 'open', False)
                out2 = []
                for val in it.items:
                    out2.append(self.call(fn, [val], {}, node))
                object.__setattr__(out, 'items', out2)
                return out
            self.iterate(it, per_item, set(), node)
            return out
        return NotImplemented

    def ext_super(self, args, kwargs, node):
        if len(args) == 2 and isinstance(args[0], ClsRef):
            return SuperRef(args[0].cls, args[1])
        if not args and self.frame.func is not None and self.frame.func.cls is not None:
            selfname = self.frame.func.node.args.args[0].arg
            return SuperRef(self.frame.func.cls, self.frame.env.lookup(selfname))
        return NotImplemented

    def ext_getattr(self, args, kwargs, node):
        if len(args) >= 2 and isinstance(args[1], Const) and isinstance(args[1].value, str):
            base = args[0]
            if isinstance(base, (Obj, ClsRef, ModRef)):
                return self.get_attr(base, args[1].value, node)
            if isinstance(base, ExtRef):
                v = self.get_attr(base, args[1].value, node)
                if len(args) == 3:
                    return join(v, args[2])
                return v
        return NotImplemented

    def ext_print(self, args, kwargs, node):
        stream = kwargs.get('file', ExtRef('sys.stdout'))
        self.emit('output', node, {'stream': stream, 'args': list(args), 'via': 'print'})
        self.drain_generators(args, {}, node)
        return NONE

    def ext_sys_exit(self, args, kwargs, node):
        n = self.emit('ext', node, {'fn': 'sys.exit', 'args': list(args),
                                    'kwargs': dict(kwargs), 'terminates': True})
        self.route_raise(n, ['SystemExit'], soft=True)
        self.goto(self.g.exit, 'sys.exit')
        return Unknown('sys.exit')

    ext_exit = ext_sys_exit
    ext_os__exit = ext_sys_exit

    def ext_range(self, args, kwargs, node):
        return Call('range', tuple(args), (), None)

    def ext_typing_NamedTuple(self, args, kwargs, node):
        return Unknown('dynamic-namedtuple')

    def ext_typing_TypeVar(self, args, kwargs, node):
        return ExtRef('typing.TypeVar')

    def ext_typing_cast(self, args, kwargs, node):
        return args[1] if len(args) == 2 else NotImplemented

    def ext_tuple___new__(self, args, kwargs, node):
        if len(args) == 2 and isinstance(args[0], ClsRef):
            o = Obj(args[0].cls, None)
            o.fields['_tuple'] = args[1]
            return o
        return NotImplemented

    def ext_object___new__(self, args, kwargs, node):
        if args and isinstance(args[0], ClsRef):
            return Obj(args[0].cls, None)
        return NotImplemented

    # ---------------------------------------------------- methods on non-repo
    def method_on_value(self, recv, name, args, kwargs, node):
        """Call of attribute ``name`` on a value that is not a repo object."""
        if isinstance(recv, Phi):
            outs = []
            start = self.cur
            end = self.join_node(node, 'dispatch-value')
            for a, o in recv.alts:
                self.cur = start
                if self.cur is None:
                    break
                if isinstance(a, (Obj, ClsRef, ModRef)):
                    r = self.call(self.get_attr(a, name, node), args, kwargs, node)
                else:
                    r = self.method_on_value(a, name, args, kwargs, node)
                if self.cur is not None:
                    outs.append((r, self.cur))
                    self.goto(end)
            self.land(end)
            return join(*outs) if outs else Unknown('dead')
        # containers with semantics
        if isinstance(recv, ListObj):
            r = self.list_method(recv, name, args, kwargs, node)
            if r is not NotImplemented:
                return r
        if isinstance(recv, DictObj):
            r = self.dict_method(recv, name, args, kwargs, node)
            if r is not NotImplemented:
                return r
        if isinstance(recv, Const) and isinstance(recv.value, str):
            r = self.str_const_method(recv, name, args, kwargs, node)
            if r is not NotImplemented:
                return r
        if isinstance(recv, Obj) and name == '_replace' and self.nt_fields(recv.cls):
            o = Obj(recv.cls, self.cur)
            o.fields.update(recv.fields)
            o.fields.update(kwargs)
            return o
        if isinstance(recv, Fmt) and name == 'encode':
            pass
        # repo method reached through a value of unknown static type: resolve by
        # name over repo classes (class-hierarchy analysis by name)
        if name not in BUILTIN_METHOD_NAMES and not isinstance(recv, (Const, Fmt)):
            cands = self.methods_named(name)
            if cands:
                self.stats['by_name'] += 1
                self.by_name_calls.append((name, [f.qualname for f in cands],
                                           '%s:%s' % (self.frame.module.relpath,
                                                      getattr(node, 'lineno', 0))))
                alts = [(Bound(recv, f) if f.kind != 'static' else FuncRef(f, None), None)
                        for f in cands]
                if len(alts) == 1:
                    return self.call(alts[0][0], args, kwargs, node)
                return self.call_alternatives(Phi(alts), args, kwargs, node)
        self.stats['method_ext'] += 1
        fobj = self.file_object_of(recv)
        if fobj is not None and name in ('write', 'writelines', 'close', 'flush', 'truncate'):
            under, writable = fobj
            if name in ('write', 'writelines') and writable:
                data = {'prim': 'file.write', 'kind': 'WRITE', 'args': list(args),
                        'kwargs': dict(kwargs),
                        'roles': {'fd': under, 'data': args[0] if args else None}}
                n = self.emit('effect', node, data)
                res = MCall(recv, name, tuple(args), tuple(sorted(kwargs.items())), n)
                data['result'] = res
                self.route_raise(n, ['OSError'])
                return res
            if name == 'close':
                data = {'prim': 'file.close', 'kind': 'CLOSE', 'args': [], 'kwargs': {},
                        'roles': {'fd': under}}
                n = self.emit('effect', node, data)
                self.route_raise(n, ['OSError'])
                return NONE
        kind = None
        if name in prims.MUTATING_METHODS and not isinstance(recv, (Const, Fmt, ListObj, DictObj)):
            if self.maybe_pathlike(recv, name):
                kind = prims.MUTATING_METHODS[name]
        data = {'name': name, 'recv': recv, 'args': list(args), 'kwargs': dict(kwargs)}
        if kind:
            data.update({'prim': 'method:' + name, 'kind': kind, 'roles': {'path': recv}})
            n = self.emit('effect', node, data)
        elif name == 'write' or (name in ('warning', 'error', 'info', 'critical')):
            data['stream'] = recv
            data['via'] = name
            n = self.emit('output', node, data)
        else:
            n = self.emit('mcall', node, data)
        res = MCall(recv, name, tuple(args), tuple(sorted(kwargs.items())), n)
        data['result'] = res
        if name in prims.METHOD_MAY_RAISE and not self.method_is_total(recv, name, args):
            self.route_raise(n, prims.METHOD_MAY_RAISE[name])
        if name in ('parse_args', 'error', 'exit'):
            self.route_raise(n, ['SystemExit'], soft=True)
        self.drain_generators(args, kwargs, node)
        return res

    def file_object_of(self, recv):
        """(underlying descriptor/open result, writable) when recv is a file object
        made by os.fdopen(fd, mode) or open(path, mode)."""
        for a in terms_of(recv):
            if isinstance(a, Call) and a.fn == 'os.fdopen' and a.args:
                mode = a.args[1] if len(a.args) > 1 else dict(a.kwargs).get('mode')
                w = not (isinstance(mode, Const) and isinstance(mode.value, str) and
                         not any(ch in mode.value for ch in 'wax+')) and mode is not None
                return a.args[0], w
            if isinstance(a, Call) and a.fn in ('open', 'io.open') and a.args:
                mode = a.args[1] if len(a.args) > 1 else dict(a.kwargs).get('mode')
                w = mode is not None and not (
                    isinstance(mode, Const) and isinstance(mode.value, str) and
                    not any(ch in mode.value for ch in 'wax+'))
                return a, w
        return None

    def method_is_total(self, recv, name, args):
        if name == 'encode' and isinstance(recv, Const):
            try:
                recv.value.encode(*[a.value for a in args])
                return True
            except Exception:
                return False
        return False

    def maybe_pathlike(self, recv, name):
        """A mutating method name on a value that may be a pathlib path / file."""
        # only the spine the value is made of counts (receiver, container, alternatives):
        # a call *argument* that mentions open() says nothing about the result's type,
        # and the result of a str method / input() is a str whatever it was called on
        todo, seen = [recv], set()
        while todo:
            x = todo.pop()
            if id(x) in seen:
                continue
            seen.add(id(x))
            if isinstance(x, Call):
                if x.fn in ('input', 'raw_input', 'str', 'repr', 'os.path.join'):
                    continue
                if x.fn.startswith('pathlib') or x.fn in ('open', 'io.open'):
                    return True
                continue
            if isinstance(x, ExtRef):
                if x.qualname.startswith('pathlib') or x.qualname in ('open', 'io.open'):
                    return True
                continue
            if isinstance(x, MCall):
                if x.name in STR_RESULT_METHODS:
                    continue
                todo.append(x.recv)
            elif isinstance(x, (Elem, Index)):
                todo.append(x.container)
            elif isinstance(x, (Sub, Attr)):
                todo.append(x.base)
            elif isinstance(x, Phi):
                todo.extend(alts(x))
            elif isinstance(x, IfT):
                todo.extend([x.then, x.orelse])
            elif isinstance(x, (Const, Fmt, Bin, Cmp, BoolT, Un, TupleT, ListObj, DictObj)):
                continue
            else:
                todo.extend(c for c in children(x))
        return name in ('unlink', 'rmdir', 'symlink_to', 'write_text', 'write_bytes',
                        'hardlink_to', 'touch')

    def methods_named(self, name):
        out = []
        for c in self.p.all_classes():
            if name in c.methods:
                f = c.methods[name]
                if self.is_abstract(f):
                    continue
                out.append(f)
        return out

    def is_abstract(self, f):
        body = [s for s in f.node.body
                if not (isinstance(s, ast.Expr) and isinstance(s.value, ast.Constant))]
        if len(body) == 1 and isinstance(body[0], ast.Raise):
            s = ast.unparse(body[0])
            return 'NotImplementedError' in s
        if len(body) == 1 and isinstance(body[0], ast.Pass):
            return any(ast.unparse(d) == 'abstractmethod' for d in f.node.decorator_list)
        return False

    def list_method(self, lst, name, args, kwargs, node):
        if name == 'append' and len(args) == 1:
            self.emit('append', node, {'list': lst, 'value': args[0]})
            in_loop = bool(self.loops) or self.in_any_loop()
            if in_loop or lst.open:
                object.__setattr__(lst, 'open', True)
                if not any(args[0] is x or args[0] == x for x in lst.items):
                    lst.items.append(args[0])
            else:
                lst.items.append(args[0])
            return NONE
        if name == 'extend' and len(args) == 1:
            other = self.materialise(args[0], node)
            object.__setattr__(lst, 'open', True)
            for x in other.items:
                if not any(x is y or x == y for y in lst.items):
                    lst.items.append(x)
            return NONE
        if name in ('sort',):
            key = kwargs.get('key')
            elem = join(*lst.items) if lst.items else Elem(lst)
            keyterm = self.call(key, [elem], {}, node) if key is not None else elem
            self.emit('sort', node, {'key': keyterm, 'elem': elem, 'list': lst,
                                     'keyfn': key, 'source': lst})
            return NONE
        if name == 'copy':
            return ListObj(list(lst.items), lst.open, self.cur, lst.kind)
        return NotImplemented

    def in_any_loop(self):
        return getattr(self, 'loop_depth', 0) > 0

    def dict_method(self, d, name, args, kwargs, node):
        if name == 'get' and args and isinstance(args[0], Phi) and len(args[0].alts) > 1 \
                and not kwargs:
            return join(*[(self.dict_method(d, name, [a] + list(args[1:]), kwargs, node), o)
                          for a, o in args[0].alts])
        if name == 'get' and args:
            v = self.subscript(d, args[0], node)
            default = args[1] if len(args) > 1 else NONE
            if isinstance(v, Sub):
                return join(*([x for _, x in d.entries] + [default]))
            # decided lookup returns the value; else add the default
            cs = [self.compare('==', k, args[0]) for k, _ in d.entries]
            if cs and d.site is None and all(isinstance(c, Const) and not c.value
                                             for c in cs):
                return default
            for k, val in d.entries:
                if isinstance(self.compare('==', k, args[0]), Const) and \
                        self.compare('==', k, args[0]).value:
                    return val
            return join(v, default)
        if name in ('items',):
            return ListObj([TupleT((k, v)) for k, v in d.entries], False, self.cur)
        if name in ('values',):
            return ListObj([v for k, v in d.entries], False, self.cur)
        if name in ('keys',):
            return ListObj([k for k, v in d.entries], False, self.cur)
        return NotImplemented

    def str_const_method(self, recv, name, args, kwargs, node):
        if name == 'format':
            if all(isinstance(a, Const) for a in args) and \
                    all(isinstance(v, Const) for v in kwargs.values()):
                try:
                    return Const(recv.value.format(*[a.value for a in args],
                                                   **{k: v.value for k, v in kwargs.items()}))
                except Exception:
                    return NotImplemented
            if not kwargs and recv.value.count('{}') == len(args) and \
                    recv.value.count('{') == len(args):
                return self.fold_fmt(recv.value.replace('%', '%%').replace('{}', '%s'),
                                     tuple(args))
            # named / numbered plain fields ({name}, {0}); no conversions or specs
            import string
            try:
                pieces = list(string.Formatter().parse(recv.value))
            except ValueError:
                return NotImplemented
            tmpl, fargs, auto = '', [], 0
            for lit, field, spec, conv in pieces:
                tmpl += lit.replace('%', '%%')
                if field is None:
                    continue
                if spec or conv:
                    return NotImplemented
                if field == '':
                    if auto >= len(args):
                        return NotImplemented
                    fargs.append(args[auto])
                    auto += 1
                elif field.isdigit() and int(field) < len(args):
                    fargs.append(args[int(field)])
                elif field in kwargs:
                    fargs.append(kwargs[field])
                else:
                    return NotImplemented
                tmpl += '%s'
            return self.fold_fmt(tmpl, tuple(fargs))
        if name == 'join' and len(args) == 1:
            lst = self.materialise(args[0], node)
            if isinstance(lst, ListObj) and not lst.open and lst.items and \
                    isinstance(recv.value, str):
                # sep.join of a statically known sequence of constants / formats
                tmpl, fargs, ok = '', (), True
                for i, it in enumerate(lst.items):
                    t, a = self.as_fmt(it)
                    if t is None:
                        ok = False
                        break
                    tmpl += (recv.value.replace('%', '%%') if i else '') + t
                    fargs += tuple(a)
                if ok:
                    return self.fold_fmt(tmpl, fargs)
            return MCall(recv, 'join', (lst,), (), None)
        if all(isinstance(a, Const) for a in args) and not kwargs and \
                name in ('lower', 'upper', 'strip', 'rstrip', 'lstrip', 'startswith',
                         'endswith', 'replace', 'split', 'encode'):
            try:
                r = getattr(recv.value, name)(*[a.value for a in args])
                if isinstance(r, (str, bool, bytes, int)):
                    return Const(r)
            except Exception:
                pass
        return NotImplemented
