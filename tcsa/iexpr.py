"""Expression evaluation to terms (partial evaluation with folding)."""
import ast
from .model import EXC_PARENT, canon_exc

from .model import ClassInfo, FuncInfo, canon_exc
from .icore import Env, Frame
from .terms import *  # noqa

BINOPS = {ast.Add: '+', ast.Sub: '-', ast.Mult: '*', ast.Div: '/', ast.Mod: '%',
          ast.BitOr: '|', ast.BitAnd: '&', ast.BitXor: '^', ast.FloorDiv: '//',
          ast.Pow: '**', ast.LShift: '<<', ast.RShift: '>>', ast.MatMult: '@'}
CMPOPS = {ast.Eq: '==', ast.NotEq: '!=', ast.Lt: '<', ast.LtE: '<=', ast.Gt: '>',
          ast.GtE: '>=', ast.Is: 'is', ast.IsNot: 'is not', ast.In: 'in',
          ast.NotIn: 'not in'}
UNOPS = {ast.Not: 'not', ast.USub: '-', ast.UAdd: '+', ast.Invert: '~'}


# external names that denote values (not modules / functions): attribute access
# on them is a method / data access on that value
VALUE_REFS = {'os.environ', 'sys.argv', 'sys.stdout', 'sys.stderr', 'sys.stdin',
              'os.sep', 'os.path.sep', 'os.curdir', 'os.pardir', 'os.linesep',
              'sys.executable', 'sys.version_info', 'sys.platform'}


def truth(t):
    """True / False / None(unknown) of a term."""
    if isinstance(t, Phi):
        vals = set(truth(a) for a in t.terms())
        if len(vals) == 1:
            return vals.pop()
        return None
    if isinstance(t, Const):
        return bool(t.value)
    if isinstance(t, (Obj, ClsRef, FuncRef, Bound, LambdaRef, EnumVal, GenObj)):
        return True
    if isinstance(t, (ListObj,)):
        # a mutable list: an empty one may be appended to later (in a loop whose
        # body is analysed once), so only "non-empty" is a stable fact
        if not t.open and len(t.items) > 0:
            return True
        return None
    if isinstance(t, TupleT):
        return len(t.items) > 0
    if isinstance(t, DictObj):
        return None
    return None


NEVER_NONE_CALLS = frozenset((
    'int', 'str', 'len', 'range', 'float', 'bool', 'list', 'tuple', 'dict', 'set', 'sorted',
    'repr', 'abs', 'enumerate', 'zip', 'os.path.join', 'os.path.basename', 'os.path.dirname',
    'os.path.abspath', 'os.path.realpath', 'os.path.normpath', 'os.getuid', 'os.listdir'))


def never_none(x):
    """The value is the result of a builtin that has no None result, or an element of a
    sequence of such results (range: ints; os.listdir: names; enumerate: pairs)."""
    if isinstance(x, Call):
        return x.fn in NEVER_NONE_CALLS
    if isinstance(x, Elem):
        c = x.container
        while isinstance(c, Phi) and len(c.alts) == 1:
            c = c.alts[0][0]
        return isinstance(c, Call) and c.fn in ('range', 'enumerate', 'zip', 'os.listdir')
    if isinstance(x, ExtRef):
        from .prims import BUILTIN_NAMES              # a builtin callable (str, len ...)
        return x.qualname in BUILTIN_NAMES and x.qualname not in ('NotImplemented',
                                                                  'Ellipsis')
    return isinstance(x, (Index, Bin))


class ExprMixin(object):
    def ev(self, e):
        m = getattr(self, 'ev_' + type(e).__name__, None)
        if m is None:
            self.diag('unsupported-expr', type(e).__name__, e)
            return Unknown('unsupported:' + type(e).__name__)
        return m(e)

    # ----------------------------------------------------------------- atoms
    def ev_Constant(self, e):
        return Const(e.value)

    def ev_Name(self, e):
        v = self.lookup_name(e.id)
        if v is None:
            self.diag('unbound-name', e.id, e)
            return Unknown('unbound:' + e.id)
        return v

    def ev_Tuple(self, e):
        return TupleT(tuple(self.ev_items(e.elts)))

    def ev_items(self, elts):
        out = []
        for x in elts:
            if isinstance(x, ast.Starred):
                v = self.ev(x.value)
                if isinstance(v, TupleT):
                    out.extend(v.items)
                elif isinstance(v, ListObj) and not v.open:
                    out.extend(v.items)
                else:
                    out.append(Elem(v))
            else:
                out.append(self.ev(x))
        return out

    def ev_List(self, e):
        return ListObj(self.ev_items(e.elts), False, self.cur)

    def ev_Set(self, e):
        return ListObj(self.ev_items(e.elts), False, self.cur, 'set')

    def ev_Dict(self, e):
        entries = []
        for k, v in zip(e.keys, e.values):
            vv = self.ev(v)
            if k is None:
                if isinstance(vv, DictObj):
                    entries.extend(vv.entries)
                else:
                    entries.append((Unknown('**'), Elem(vv)))
            else:
                entries.append((self.ev(k), vv))
        return DictObj(entries, self.cur)

    def ev_JoinedStr(self, e):
        tmpl = ''
        args = []
        for v in e.values:
            if isinstance(v, ast.Constant):
                tmpl += str(v.value).replace('%', '%%')
            else:
                tmpl += '%s'
                args.append(self.ev(v.value))
        return self.fold_fmt(tmpl, tuple(args))

    def ev_FormattedValue(self, e):
        return self.ev(e.value)

    def ev_Lambda(self, e):
        fi = FuncInfo('<lambda>', self.frame.qualname + '.<lambda>',
                      self.frame.module, e,
                      self.frame.func.cls if self.frame.func else None)
        return LambdaRef(e, self.frame, fi)

    def ev_Starred(self, e):
        return Elem(self.ev(e.value))

    # ------------------------------------------------------------- operators
    def ev_BinOp(self, e):
        l = self.ev(e.left)
        r = self.ev(e.right)
        return self.binop(BINOPS.get(type(e.op), '?'), l, r)

    def binop(self, op, l, r):
        if isinstance(l, Const) and isinstance(r, Const):
            try:
                a, b = l.value, r.value
                if op == '+':
                    return Const(a + b)
                if op == '-':
                    return Const(a - b)
                if op == '*' and not isinstance(a, str) and not isinstance(b, str):
                    return Const(a * b)
                if op == '|':
                    return Const(a | b)
                if op == '&':
                    return Const(a & b)
                if op == '%' and isinstance(a, str):
                    return Const(a % b)
            except Exception:
                pass
        if op == '%' and isinstance(l, Const) and isinstance(l.value, str):
            if isinstance(r, TupleT):
                args = r.items
            else:
                args = (r,)
            return self.fold_fmt(l.value, tuple(args))
        if op == '+':
            # string concatenation of constants / formats -> one Fmt
            lt, la = self.as_fmt(l)
            rt, ra = self.as_fmt(r)
            if lt is not None and rt is not None:
                return self.fold_fmt(lt + rt, tuple(la) + tuple(ra))
        return Bin(op, l, r)

    def as_fmt(self, t):
        while isinstance(t, Phi) and len(t.alts) == 1:
            t = t.alts[0][0]
        if isinstance(t, Const) and isinstance(t.value, str):
            return t.value.replace('%', '%%'), ()
        if isinstance(t, Fmt):
            return t.template, t.args
        return None, ()

    def fold_fmt(self, template, args):
        """Substitute constant arguments of %s holes; keep the others."""
        if isinstance(args, tuple) and all(isinstance(a, Const) for a in args):
            try:
                return Const(template % tuple(a.value for a in args))
            except Exception:
                pass
        if any(isinstance(a, Fmt) or (isinstance(a, Const) and isinstance(a.value, str))
               for a in args):
            # inline string / format arguments of plain %s holes: one flat template
            out, oargs, i, k, ok = '', [], 0, 0, True
            while i < len(template):
                ch = template[i]
                if ch != '%':
                    out += ch
                    i += 1
                    continue
                nxt = template[i + 1:i + 2]
                if nxt == '%':
                    out += '%%'
                    i += 2
                elif nxt == 's' and k < len(args):
                    a = args[k]
                    k += 1
                    t, fa = self.as_fmt(a)
                    if t is not None:
                        out += t
                        oargs.extend(fa)
                    else:
                        out += '%s'
                        oargs.append(a)
                    i += 2
                else:
                    ok = False
                    break
            if ok and k == len(args):
                if not oargs:
                    try:
                        return Const(out % ())
                    except Exception:
                        pass
                return Fmt(out, tuple(oargs))
        return Fmt(template, tuple(args))

    def ev_UnaryOp(self, e):
        v = self.ev(e.operand)
        op = UNOPS.get(type(e.op), '?')
        if op == 'not':
            tv = truth(v)
            if tv is not None:
                return Const(not tv)
        if isinstance(v, Const) and op == '-' and isinstance(v.value, (int, float)):
            return Const(-v.value)
        return Un(op, v)

    def ev_BoolOp(self, e):
        """Value-level boolean operator with short-circuit control flow."""
        is_and = isinstance(e.op, ast.And)
        end = self.join_node(e, 'boolop')
        results = []
        vars0 = None
        for i, sub in enumerate(e.values):
            if self.cur is None:
                break
            v = self.ev(sub)
            last = i == len(e.values) - 1
            if last:
                results.append((v, self.cur))
                self.goto(end)
                break
            tv = truth(v)
            if tv is not None:
                if tv == is_and:
                    continue          # decided: go on with the next operand
                results.append((v, self.cur))
                self.goto(end)
                break
            base = self.cur
            # short-circuit edge: value v decides the result
            self.cur = base
            a_stop = self.emit('assume', sub, {'cond': v, 'pol': not is_and,
                                                'test_src': ast.unparse(sub)})
            results.append((v, a_stop))
            self.goto(end)
            self.cur = base
            self.emit('assume', sub, {'cond': v, 'pol': is_and,
                                      'test_src': ast.unparse(sub)})
        self.land(end)
        if not results:
            return Unknown('dead-boolop')
        if len(results) == 1:
            return results[0][0]
        return BoolT('and' if is_and else 'or', tuple(v for v, _ in results))

    def ev_Compare(self, e):
        left = self.ev(e.left)
        out = None
        for op, right in zip(e.ops, e.comparators):
            r = self.ev(right)
            c = self.compare(CMPOPS.get(type(op), '?'), left, r)
            out = c if out is None else BoolT('and', (out, c))
            left = r
        return out

    def compare(self, op, l, r):
        def ident(a, b):
            """True/False/None for 'a is b'-like identity of abstract values."""
            if isinstance(a, Const) and isinstance(b, Const):
                return a.value == b.value and type(a.value) is type(b.value)
            if isinstance(a, EnumVal) and isinstance(b, EnumVal):
                return a.cls is b.cls and a.name == b.name
            if isinstance(a, Obj) and isinstance(b, Obj):
                # instances of a str/int subclass: compared by their value
                va, vb = a.fields.get('_value'), b.fields.get('_value')
                if isinstance(va, Const) and isinstance(vb, Const) and \
                        not self.find_member(a.cls, '__eq__') and \
                        not self.find_member(b.cls, '__eq__'):
                    return va.value == vb.value
                return None
            if isinstance(a, ClsRef) and isinstance(b, ClsRef):
                return a.cls is b.cls
            # a module-level sentinel "X = object()": identical to itself, to nothing else
            sa = isinstance(a, Call) and a.fn == 'object' and not a.args
            sb = isinstance(b, Call) and b.fn == 'object' and not b.args
            if sa and sb:
                return a is b or (a.node is not None and a.node == b.node)
            if sa or sb:
                other = b if sa else a
                if isinstance(other, (Const, Sub, MCall, Fmt, Bin, Obj, ListObj, DictObj,
                                      TupleT, EnumVal, ClsRef, ExcVal)) or \
                        (isinstance(other, Call) and other.fn != 'object'):
                    return False
            solid = (Obj, ClsRef, EnumVal, FuncRef, Bound, ListObj, DictObj, TupleT, ExcVal,
                     LambdaRef, GenObj, Fmt)
            if isinstance(a, Const) and a.value is None and \
                    (isinstance(b, solid) or never_none(b)):
                return False
            if isinstance(b, Const) and b.value is None and \
                    (isinstance(a, solid) or never_none(a)):
                return False
            if isinstance(a, EnumVal) and isinstance(b, Const):
                return False
            if isinstance(b, EnumVal) and isinstance(a, Const):
                return False
            return None
        if op in ('in', 'not in') and not isinstance(l, Phi):
            keys = None
            # (only containers that are constants of the program: a tuple, or a dict /
            # list built at module or class level -- one built at run time may have
            # gained or lost elements by the time of the test)
            if isinstance(r, DictObj) and r.site is None:
                keys = [k for k, _ in r.entries]
            elif isinstance(r, TupleT) or (isinstance(r, ListObj) and not r.open and
                                           r.site is None):
                keys = list(r.items)
            if keys is not None and len(keys) <= 32:
                cs = [self.compare('==', k, l) for k in keys]
                if any(isinstance(c, Const) and c.value for c in cs):
                    return Const(op == 'in')
                if all(isinstance(c, Const) and not c.value for c in cs):
                    return Const(op != 'in')
        if op in ('in', 'not in') and isinstance(l, Phi) and not isinstance(r, Phi) and \
                len(l.alts) <= 16:
            vs = set()
            for a in l.terms():
                c = self.compare(op, a, r)
                vs.add(c.value if isinstance(c, Const) else None)
            if len(vs) == 1 and None not in vs:
                return Const(vs.pop())
        if op in ('==', 'is', '!=', 'is not') and (isinstance(l, Phi) or isinstance(r, Phi)):
            # a join whose alternatives all give the same verdict has that verdict
            # (in particular a value with one alternative and an origin)
            ls = l.terms() if isinstance(l, Phi) else [l]
            rs = r.terms() if isinstance(r, Phi) else [r]
            if len(ls) * len(rs) <= 64:
                verdicts = set()
                for a in ls:
                    for b_ in rs:
                        c = self.compare(op, a, b_)
                        verdicts.add(c.value if isinstance(c, Const) else None)
                if len(verdicts) == 1 and None not in verdicts:
                    return Const(verdicts.pop())
        if op in ('==', 'is', '!=', 'is not'):
            i = ident(l, r)
            if i is not None and not (op in ('==', '!=') and
                                      (isinstance(l, Obj) != isinstance(r, Obj))):
                return Const(i if op in ('==', 'is') else not i)
            if isinstance(l, Const) and isinstance(r, Const):
                return Const((l.value == r.value) == (op in ('==', 'is')))
        if isinstance(l, Const) and isinstance(r, Const):
            try:
                a, b = l.value, r.value
                return Const({'<': a < b, '<=': a <= b, '>': a > b, '>=': a >= b}[op]) \
                    if op in ('<', '<=', '>', '>=') else Cmp(op, l, r)
            except Exception:
                pass
        return Cmp(op, l, r)

    def ev_IfExp(self, e):
        t, f, rt, rf, cond = self.ev_cond(e.test)
        end = self.join_node(e, 'ifexp')
        vals = []
        saved = dict(self.frame.env.vars)
        if t is not None:
            self.cur = t
            self.apply_refinements(rt)
            v = self.ev(e.body)
            vals.append((v, self.cur))
            self.goto(end)
        self.frame.env.vars = dict(saved)
        if f is not None:
            self.cur = f
            self.apply_refinements(rf)
            v = self.ev(e.orelse)
            vals.append((v, self.cur))
            self.goto(end)
        self.frame.env.vars = saved
        self.land(end)
        if not vals:
            return Unknown('dead-ifexp')
        return join(*vals)

    # ------------------------------------------------------------ attributes
    def ev_Attribute(self, e):
        base = self.ev(e.value)
        return self.get_attr(base, e.attr, e)

    def get_attr(self, base, name, node=None):
        if isinstance(base, Phi):
            outs = []
            for a, o in base.alts:
                v = self.get_attr(a, name, node)
                if o is None and isinstance(a, Obj):
                    o = a.site
                outs.append((v, o))
            return join(*outs)
        if isinstance(base, Obj):
            return self.obj_attr(base, name, node)
        if isinstance(base, ClsRef):
            return self.class_attr(base.cls, name, node)
        if isinstance(base, ModRef):
            return self.module_attr(base.modname, name, node)
        if isinstance(base, ExtRef):
            if base.qualname in VALUE_REFS:
                return ExtBound(base, name)
            q = base.qualname + '.' + name
            from .model import SIX_MOVES
            return ExtRef(SIX_MOVES.get(q, q))
        if isinstance(base, SuperRef):
            return self.super_attr(base, name, node)
        if isinstance(base, EnumVal):
            if name == 'name':
                return Const(base.name)
            if name == 'value':
                mem = base.cls.attrs.get(base.name)
                return self.eval_detached(base.cls.module, mem, 'enum value') \
                    if mem is not None else Unknown('enum-value')
            mem = self.find_member(base.cls, name)
            if mem and mem[0] == 'method':
                return self.bind_method(base, mem[2])
            return Attr(base, name)
        if isinstance(base, (Const, Fmt, ListObj, DictObj, TupleT)):
            return ExtBound(base, name)
        if isinstance(base, ExcVal):
            if name in ('errno', 'strerror', 'filename', 'filename2') and self.cur is not None:
                # only OSError (and its subclasses) has these attributes: for any other
                # class that arrives at the handler the access itself raises
                lacking = [c for c in base.classes
                           if 'OSError' not in self.exc_chain(c) and
                           c not in ('Exception', 'BaseException') and
                           (canon_exc(c) in EXC_PARENT)]
                if lacking:
                    n = self.emit('type-error', node, {
                        'what': 'caught %s has no attribute %s' % ('/'.join(lacking), name),
                        'value': base})
                    self.route_raise(n, ['AttributeError'])
            return Attr(base, name)
        if isinstance(base, (FuncRef, Bound, LambdaRef)):
            return Attr(base, name)
        # data attribute of a non-repo / unknown value
        return Attr(base, name)

    def bind_method(self, recv, func):
        if func.kind == 'static':
            return FuncRef(func, None)
        if func.kind == 'class':
            cls = recv.cls if isinstance(recv, (Obj, EnumVal)) else func.cls
            return Bound(ClsRef(cls), func)
        if func.kind == 'property':
            return self.call_function(func, [recv], {}, None)
        return Bound(recv, func)

    def obj_attr(self, obj, name, node):
        if name in obj.fields:
            v = obj.fields[name]
            heads = getattr(self, 'loop_heads', [])
            if name in self.p.mutable_fields and heads and \
                    (obj.site is None or obj.site < heads[-1]) and \
                    not isinstance(v, (Obj, ListObj, DictObj, GenObj, Bound, FuncRef)):
                # a field that is re-assigned somewhere, of an object created before the
                # innermost loop around this read, whose body is analysed once: a store
                # later in the body reaches this read in the next iteration -- the value
                # is one of those seen so far, or unknown
                return join(v, LoopVar('%s.%s' % (obj.cls.name, name), obj.site))
            return v
        if name == '__class__':
            return ClsRef(obj.cls)
        mem = self.find_member(obj.cls, name)
        if mem is None:
            if '_tuple' in obj.fields and name in ('__iter__', '__len__'):
                return ExtBound(obj, name)
            if name in ('_replace', '_asdict', '_fields') and self.nt_fields(obj.cls):
                return ExtBound(obj, name)
            if self.is_exception_class(obj.cls) and name in ('args', 'errno', 'filename',
                                                             'strerror', 'message'):
                return Attr(obj, name)
            self.diag('missing-attr', '%s has no attribute %s' % (obj.cls.qualname, name), node)
            return Unknown('noattr:%s.%s' % (obj.cls.name, name))
        kind, owner, payload = mem
        if kind == 'method':
            return self.bind_method(obj, payload)
        if kind == 'attr':
            v = self.class_level_value(owner, name, payload)
            if isinstance(v, FuncRef) and v.closure is None and v.func.cls is not None and \
                    v.func.kind == 'function':
                # "alias = method" in the class body: a function of the class, looked
                # up on an instance, is a bound method
                return Bound(obj, v.func)
            if isinstance(v, FuncRef) and v.closure is None and v.func.cls is not None and \
                    v.func.kind == 'class':
                return Bound(ClsRef(obj.cls), v.func)      # alias of a classmethod
            return v
        if kind == 'nested':
            return ClsRef(payload)
        if kind == 'field':
            return Unknown('unset-field:%s.%s' % (obj.cls.name, name))
        return Unknown('attr')

    def class_level_value(self, owner, name, expr):
        key = ('class', owner.qualname, name)
        if key in self.global_cache:
            return self.global_cache[key]
        if self.is_enum(owner) and not (isinstance(expr, ast.Call)):
            v = EnumVal(owner, name)
        else:
            if key in self.global_busy:
                return Unknown('cyclic-class-attr')
            self.global_busy.add(key)
            try:
                # names of the class body: the functions defined in it are plain
                # functions there (a dispatch table of methods, say)
                ns = {}
                for mname, fi in owner.methods.items():
                    ns[mname] = FuncRef(fi, None)
                for cname, ci in owner.nested.items():
                    ns[cname] = ClsRef(ci)
                v = self.eval_detached(owner.module, expr,
                                       'class attr %s.%s' % (owner.qualname, name), ns)
            finally:
                self.global_busy.discard(key)
        self.global_cache[key] = v
        return v

    def class_attr(self, cls, name, node):
        if name == '__name__':
            return Const(cls.name)
        mem = self.find_member(cls, name)
        if mem is None:
            return Attr(ClsRef(cls), name)
        kind, owner, payload = mem
        if kind == 'method':
            if payload.kind == 'static':
                return FuncRef(payload, None)
            if payload.kind == 'class':
                return Bound(ClsRef(cls), payload)
            return FuncRef(payload, None)      # unbound function
        if kind == 'attr':
            v = self.class_level_value(owner, name, payload)
            if isinstance(v, FuncRef) and v.closure is None and v.func.cls is not None and \
                    v.func.kind == 'class':
                return Bound(ClsRef(cls), v.func)          # alias of a classmethod
            return v
        if kind == 'nested':
            return ClsRef(payload)
        return Attr(ClsRef(cls), name)

    def module_attr(self, modname, name, node):
        sub = modname + '.' + name
        m = self.p.modules.get(modname)
        if m is not None:
            v = self.lookup_global(m, name)
            if v is not None:
                return v
        if sub in self.p.modules:
            return ModRef(sub)
        if m is None and any(k.startswith(modname + '.') for k in self.p.modules):
            return ModRef(sub)
        self.diag('missing-module-attr', sub, node)
        return Unknown('missing:' + sub)

    def super_attr(self, sref, name, node):
        mro = self.mro(sref.obj.cls if isinstance(sref.obj, Obj) else sref.cls)
        try:
            i = mro.index(sref.cls)
        except ValueError:
            i = -1
        for k in mro[i + 1:]:
            if isinstance(k, ClassInfo) and name in k.methods:
                return Bound(sref.obj, k.methods[name])
        return ExtBound(sref.obj, 'super.' + name)

    # ------------------------------------------------------------- subscripts
    def ev_Slice(self, e):
        return Slice(self.ev(e.lower) if e.lower else None,
                     self.ev(e.upper) if e.upper else None,
                     self.ev(e.step) if e.step else None)

    def ev_Subscript(self, e):
        base = self.ev(e.value)
        idx = self.ev(e.slice)
        return self.subscript(base, idx, e)

    def subscript(self, base, idx, node=None):
        if isinstance(base, Phi):
            return join(*[(self.subscript(a, idx, node), o) for a, o in base.alts])
        if isinstance(base, (ClsRef,)):
            return base                       # Generic[...] parametrisation
        if isinstance(base, ExtRef):
            if base.qualname.split('.')[0] in ('typing', 'typing_extensions') or \
                    base.qualname in ('Generic', 'Protocol'):
                return base
        if isinstance(base, Obj) and '_tuple' in base.fields:
            return self.subscript(base.fields['_tuple'], idx, node)
        if isinstance(base, Obj) and self.nt_fields(base.cls) and isinstance(idx, Const) \
                and isinstance(idx.value, int):
            f = self.nt_fields(base.cls)
            if -len(f) <= idx.value < len(f):
                return base.fields.get(f[idx.value], Unknown('unset-field'))
        if isinstance(base, TupleT) and isinstance(idx, Const) and isinstance(idx.value, int):
            if -len(base.items) <= idx.value < len(base.items):
                return base.items[idx.value]
        if isinstance(base, ListObj):
            # (positions of a sorted() result are not those of its argument)
            if not base.open and isinstance(idx, Const) and isinstance(idx.value, int) \
                    and -len(base.items) <= idx.value < len(base.items) and \
                    (base.kind not in ('sorted', 'set') or len(base.items) == 1):
                return base.items[idx.value]
            if not isinstance(idx, Slice) and base.items:
                if self.cur is not None:
                    self.emit('lookup', node, {'list': base, 'key': idx})
                return strip_origins(join(*base.items))
        if isinstance(base, DictObj) and isinstance(idx, Phi) and len(idx.alts) > 1 and \
                base.entries:
            # a key that is one of several values: the entry of each (the alternative keeps
            # the site that handed the key over); a key that is certainly absent would
            # raise KeyError and contributes nothing
            outs = []
            for a, o in idx.alts:
                cs = [self.compare('==', k, a) for k, _ in base.entries]
                if base.site is None and all(isinstance(c, Const) and not c.value
                                             for c in cs):
                    continue
                outs.append((self.subscript(base, a, node), o))
            if outs:
                if self.cur is not None:
                    self.emit('lookup', node, {'dict': base, 'key': idx,
                                               'keys': [k for k, _ in base.entries],
                                               'values': [v for v, _ in outs]})
                return join(*outs)
        if isinstance(base, DictObj):
            hits = []
            decided = True
            for k, v in base.entries:
                same = self.compare('==', k, idx)
                if isinstance(same, Const):
                    if same.value:
                        return v
                else:
                    decided = False
                hits.append(v)
            if hits:
                if self.cur is not None:
                    self.emit('lookup', node, {'dict': base, 'key': idx,
                                               'keys': [k for k, _ in base.entries],
                                               'values': list(hits)})
                return join(*hits)
        if isinstance(base, Const) and isinstance(base.value, (str, tuple)) and \
                isinstance(idx, Const) and isinstance(idx.value, int):
            try:
                return Const(base.value[idx.value])
            except Exception:
                pass
        return Sub(base, idx)

    # ---------------------------------------------------------- comprehensions
    def ev_ListComp(self, e):
        return self.comprehension(e, [e.elt], 'list')

    def ev_SetComp(self, e):
        return self.comprehension(e, [e.elt], 'set')

    def ev_GeneratorExp(self, e):
        """A generator expression that is not consumed on the spot (see ev_Call) is a
        lazy generator: an anonymous generator function closed over the frame."""
        # (the outermost iterable is evaluated where the expression stands, as Python
        # does; the rest when the generator is consumed)
        first = self.ev(e.generators[0].iter)
        body = ast.Expr(ast.Yield(e.elt))
        for i, gen in reversed(list(enumerate(e.generators))):
            for cond in reversed(gen.ifs):
                body = ast.If(cond, [body], [])
            body = ast.For(gen.target, gen.iter if i else ast.Name('.0', ast.Load()),
                           [body], [], None)
        fn = ast.FunctionDef('<genexpr>', ast.arguments([], [], None, [], [], None, []),
                             [body], [], None, None)
        try:
            fn.type_params = []
        except Exception:
            pass
        ast.copy_location(fn, e)
        ast.fix_missing_locations(fn)
        for x in ast.walk(fn):
            if not hasattr(x, 'lineno') or x.lineno is None:
                x.lineno = e.lineno
        fi = FuncInfo('<genexpr>', self.frame.qualname + '.<genexpr>', self.frame.module, fn,
                      self.frame.func.cls if self.frame.func else None)
        fi.is_generator = True
        line = getattr(e, 'lineno', 0)
        stack = self.frame.stack + ((self.frame.qualname, self.frame.module.relpath, line),)
        # the free names are those of the frame as it is here: the frame's variable
        # table is replaced at every join of the enclosing function (a name bound in the
        # branch that returns the generator would be gone when it is consumed)
        here = Env(self.frame.env.parent)
        here.vars = dict(self.frame.env.vars)
        env = Env(here)
        env.vars['.0'] = first
        fr = Frame(fi, self.frame.module, env, stack, self.frame.depth + 1)
        fr.caught = []
        fr.is_gen = True
        g = GenObj(fi, fr, self.cur)
        self.gen_objs.append(g)
        return g

    def ev_DictComp(self, e):
        return self.comprehension(e, [e.key, e.value], 'dict')

    def comprehension(self, e, elts, kind):
        out = ListObj([], True, self.cur, kind if kind != 'dict' else 'list')
        dout = DictObj([], self.cur)
        exact = [False]

        def level(i):
            if i == len(e.generators):
                vals = [self.ev(x) for x in elts]
                if kind == 'dict':
                    dout.entries.append((vals[0], vals[1]))
                else:
                    if exact[0] or not any(vals[0] is it or vals[0] == it
                                           for it in out.items):
                        out.items.append(vals[0])
                    if self.cur is not None:
                        # (the list under construction cannot be named by the program:
                        # it carries nothing from one iteration to the next)
                        self.emit('append', e, {'list': out, 'value': vals[0],
                                                'comprehension': True})
                return
            gen = e.generators[i]
            it = self.ev(gen.iter)
            if isinstance(it, Phi) and len(it.alts) == 1:
                it = it.alts[0][0]        # one alternative (with its origin): the value
            if kind == 'list' and len(e.generators) == 1 and not gen.ifs and \
                    (isinstance(it, TupleT) or (isinstance(it, ListObj) and not it.open)) \
                    and len(it.items) <= 8 and \
                    not any(isinstance(x, GenObj) for x in it.items):
                # a map over a statically known sequence: the result is that
                # sequence, element by element (unrolled by iterate)
                exact[0] = True

            def per_item(val):
                self.bind_target(gen.target, val)
                ok = True
                for cond in gen.ifs:
                    t, f, rt, rf, c = self.ev_cond(cond)
                    if t is None:
                        ok = False
                        break
                    if f is not None and self.loops:
                        self.g.edge(f, self.loops[-1].cont)
                    self.cur = t
                    self.apply_refinements(rt)
                if ok:
                    level(i + 1)
            self.iterate(it, per_item, set(), gen.iter)
        level(0)
        if exact[0] and self.cur is not None:
            object.__setattr__(out, 'open', False)
        return dout if kind == 'dict' else out

    # ------------------------------------------------------------ yield/await
    def ev_Yield(self, e):
        v = self.ev(e.value) if e.value is not None else NONE
        h = self.frame.yield_handler
        if h is None:
            self.emit('yield', e, {'value': v})
            return NONE
        return h(v, e)

    def ev_YieldFrom(self, e):
        it = self.ev(e.value)
        h = self.frame.yield_handler

        def per_item(val):
            if h is None:
                self.emit('yield', e, {'value': val})
            else:
                h(val, e)
        self.iterate(it, per_item, set(), e)
        return NONE

    def ev_NamedExpr(self, e):
        v = self.ev(e.value)
        self.bind_target(e.target, v)
        return v

    # -------------------------------------------------------------- conditions
    def ev_cond(self, e):
        """Branch on expression e.  Returns (true_node, false_node, refine_true,
        refine_false, cond_term); a node is None when that outcome is impossible."""
        if isinstance(e, ast.UnaryOp) and isinstance(e.op, ast.Not):
            t, f, rt, rf, c = self.ev_cond(e.operand)
            return f, t, rf, rt, Un('not', c)
        if isinstance(e, ast.BoolOp):
            is_and = isinstance(e.op, ast.And)
            stops = []            # nodes where the result is decided early
            refs = []
            conds = []
            for i, sub in enumerate(e.values):
                if self.cur is None:
                    break
                t, f, rt, rf, c = self.ev_cond(sub)
                conds.append(c)
                go, stop = (t, f) if is_and else (f, t)
                if stop is not None:
                    stops.append(stop)
                refs.extend(rt if is_and else rf)
                self.cur = go
                if go is not None:
                    self.apply_refinements(rt if is_and else rf)
            go = self.cur
            stopj = None
            if stops:
                if len(stops) == 1:
                    stopj = stops[0]
                else:
                    stopj = self.join_node(e, 'shortcircuit')
                    for s in stops:
                        self.g.edge(s, stopj)
            cond = BoolT('and' if is_and else 'or', tuple(conds))
            if is_and:
                return go, stopj, refs, [], cond
            return stopj, go, [], refs, cond
        v = self.ev(e)
        if self.cur is None:
            return None, None, [], [], v
        tv = truth(v)
        src = ast.unparse(e)
        if len(src) > 160:
            src = src[:160] + '...'
        base = self.cur
        rt, rf = self.refinements(e, v)
        tnode = fnode = None
        if tv is not False:
            self.cur = base
            tnode = self.emit('assume', e, {'cond': v, 'pol': True, 'test_src': src})
        if tv is not True:
            self.cur = base
            fnode = self.emit('assume', e, {'cond': v, 'pol': False, 'test_src': src})
        self.cur = None
        return tnode, fnode, rt, rf, v

    def refinements(self, e, v):
        """Refinements of local names implied by the test being true / false."""
        rt, rf = [], []
        # isinstance(name, C)
        if isinstance(e, ast.Call) and isinstance(e.func, ast.Name) and \
                e.func.id == 'isinstance' and len(e.args) == 2 and \
                isinstance(e.args[0], ast.Name):
            name = e.args[0].id
            cur = self.frame.env.lookup(name)
            if isinstance(cur, Phi):
                clsv = self.ev_quiet(e.args[1])
                yes, no = [], []
                for a, o in cur.alts:
                    r = self.isinstance_of(a, clsv)
                    if r is True:
                        yes.append((a, o))
                    elif r is False:
                        no.append((a, o))
                    else:
                        yes.append((a, o))
                        no.append((a, o))
                if yes:
                    rt.append((name, join(*yes)))
                if no:
                    rf.append((name, join(*no)))
        # type(name) is C / == C
        if isinstance(e, ast.Compare) and len(e.ops) == 1 and \
                isinstance(e.left, ast.Call) and isinstance(e.left.func, ast.Name) and \
                e.left.func.id == 'type' and len(e.left.args) == 1 and \
                isinstance(e.left.args[0], ast.Name) and \
                CMPOPS.get(type(e.ops[0])) in ('is', '==', 'is not', '!='):
            name = e.left.args[0].id
            cur = self.frame.env.lookup(name)
            clsv = self.ev_quiet(e.comparators[0])
            if isinstance(cur, Phi) and isinstance(clsv, ClsRef):
                yes, no = [], []
                for a, o in cur.alts:
                    if isinstance(a, Obj):
                        (yes if a.cls is clsv.cls else no).append((a, o))
                    else:
                        yes.append((a, o))
                        no.append((a, o))
                if CMPOPS.get(type(e.ops[0])) in ('is not', '!='):
                    yes, no = no, yes
                if yes:
                    rt.append((name, join(*yes)))
                if no:
                    rf.append((name, join(*no)))
        # name is None / is not None / == const
        if isinstance(e, ast.Compare) and len(e.ops) == 1 and \
                isinstance(e.left, ast.Name):
            name = e.left.id
            cur = self.frame.env.lookup(name)
            if isinstance(cur, Phi):
                other = self.ev_quiet(e.comparators[0])
                op = CMPOPS.get(type(e.ops[0]))
                if op in ('is', 'is not', '==', '!=') and other is not None:
                    yes, no = [], []
                    for a, o in cur.alts:
                        c = self.compare('==' if op in ('==', '!=') else 'is', a, other)
                        if isinstance(c, Const):
                            (yes if c.value else no).append((a, o))
                        else:
                            yes.append((a, o))
                            no.append((a, o))
                    if op in ('is not', '!='):
                        yes, no = no, yes
                    if yes:
                        rt.append((name, join(*yes)))
                    if no:
                        rf.append((name, join(*no)))
        # the same tests on a field of a local whose alternatives are objects with that
        # field (result records such as (error, value)): the alternatives of the *local*
        # that are consistent with the outcome remain
        def attr_of_local(x):
            return isinstance(x, ast.Attribute) and isinstance(x.value, ast.Name) and \
                isinstance(self.frame.env.lookup(x.value.id), Phi)

        def split_by_field(x, verdict):
            name = x.value.id
            cur = self.frame.env.lookup(name)
            yes, no = [], []
            for a, o in cur.alts:
                fv = a.fields.get(x.attr) if isinstance(a, Obj) else None
                r = verdict(fv) if fv is not None else None
                if r is not False:
                    yes.append((a, o))
                if r is not True:
                    no.append((a, o))
            if len(yes) < len(cur.alts) or len(no) < len(cur.alts):
                if yes:
                    rt.append((name, join(*yes)))
                if no:
                    rf.append((name, join(*no)))
        if isinstance(e, ast.Compare) and len(e.ops) == 1 and attr_of_local(e.left):
            other = self.ev_quiet(e.comparators[0])
            op = CMPOPS.get(type(e.ops[0]))
            if op in ('is', 'is not', '==', '!=') and other is not None:
                def verdict(fv, _op=op, _other=other):
                    rs = set()
                    for a in (fv.terms() if isinstance(fv, Phi) else [fv]):
                        c = self.compare('==' if _op in ('==', '!=') else 'is', a, _other)
                        rs.add(bool(c.value) if isinstance(c, Const) else None)
                    if len(rs) != 1 or None in rs:
                        return None
                    r = rs.pop()
                    return (not r) if _op in ('is not', '!=') else r
                split_by_field(e.left, verdict)
        if attr_of_local(e):
            split_by_field(e, lambda fv: truth(fv))
        if isinstance(e, ast.Call) and isinstance(e.func, ast.Name) and \
                e.func.id == 'isinstance' and len(e.args) == 2 and attr_of_local(e.args[0]):
            clsv = self.ev_quiet(e.args[1])
            if clsv is not None:
                def verdict_i(fv, _c=clsv):
                    rs = set(self.isinstance_of(a, _c)
                             for a in (fv.terms() if isinstance(fv, Phi) else [fv]))
                    return rs.pop() if len(rs) == 1 else None
                split_by_field(e.args[0], verdict_i)
        # bare name truthiness
        if isinstance(e, ast.Name):
            cur = self.frame.env.lookup(e.id)
            if isinstance(cur, Phi):
                yes = [(a, o) for a, o in cur.alts if truth(a) is not False]
                no = [(a, o) for a, o in cur.alts if truth(a) is not True]
                if yes:
                    rt.append((e.id, join(*yes)))
                if no:
                    rf.append((e.id, join(*no)))
        return rt, rf

    def ev_quiet(self, e):
        """Evaluate a side-effect-free expression (class refs, constants)."""
        if isinstance(e, (ast.Name, ast.Attribute, ast.Constant, ast.Tuple)):
            try:
                return self.ev(e)
            except Exception:
                return None
        return None

    def apply_refinements(self, refs):
        for name, val in refs:
            if name in self.frame.env.vars:
                self.frame.env.vars[name] = val

    def isinstance_of(self, val, clsv):
        """True / False / None."""
        if isinstance(clsv, TupleT):
            res = [self.isinstance_of(val, c) for c in clsv.items]
            if any(r is True for r in res):
                return True
            if all(r is False for r in res):
                return False
            return None
        if isinstance(val, Obj):
            if isinstance(clsv, ClsRef):
                return self.is_subclass(val.cls, clsv.cls)
            if isinstance(clsv, ExtRef):
                q = clsv.qualname
                if q in ('object',):
                    return True
                if q in ('tuple',):
                    return '_tuple' in val.fields or bool(self.nt_fields(val.cls))
                return self.is_subclass(val.cls, q)
            return None
        if isinstance(val, Const):
            if isinstance(clsv, ExtRef):
                tmap = {'str': str, 'int': int, 'bool': bool, 'float': float,
                        'bytes': bytes, 'tuple': tuple}
                if clsv.qualname in tmap:
                    return isinstance(val.value, tmap[clsv.qualname])
                if clsv.qualname in ('basestring', 'six.string_types'):
                    return isinstance(val.value, str)
            if isinstance(clsv, ClsRef):
                return False
            return None
        if isinstance(val, EnumVal):
            if isinstance(clsv, ClsRef):
                return self.is_subclass(val.cls, clsv.cls)
            return None
        if isinstance(val, (ListObj,)) and isinstance(clsv, ClsRef):
            return False
        return None


class SuperRef(T):
    __slots__ = ('cls', 'obj')
    _fields = ('cls', 'obj')

    def __init__(self, cls, obj):
        object.__setattr__(self, 'cls', cls)
        object.__setattr__(self, 'obj', obj)
