"""Obligations, findings, known findings, evidence, exit codes (DESIGN §3.9, §6)."""
import json
import os
import re
import sys
import time
import traceback

from .model import AnalysisError, Program
from . import interp

VERIF = os.path.dirname(os.path.dirname(os.path.abspath(__file__)))
KNOWN = os.path.join(VERIF, 'known_findings.json')


def norm_text(s):
    return re.sub(r'\s+', ' ', s or '').strip()


class Finding(object):
    def __init__(self, prop, rule, construct, text, message, loc=None, path=None,
                 extra=None):
        self.prop = prop
        self.rule = rule
        self.construct = construct
        self.text = norm_text(text)
        self.message = message
        self.loc = loc
        self.path = path or []
        self.extra = extra or {}

    def key(self):
        return (self.prop, self.rule, self.construct, self.text)

    def as_dict(self):
        return {'property': self.prop, 'rule': self.rule, 'construct': self.construct,
                'text': self.text, 'message': self.message, 'loc': self.loc,
                'path': self.path, 'extra': self.extra}


class Ctx(object):
    def __init__(self, prop, repo, tier='quick'):
        self.prop = prop
        self.repo = repo
        self.tier = tier
        self.program = Program(repo)
        self.obligations = []      # dicts
        self.findings = []
        self.instances = {}        # rule -> count of instances examined
        self.notes = []
        self.samples = []
        self._graphs = {}
        self.t0 = time.time()

    # graphs -------------------------------------------------------------
    def graph(self, cmd):
        if cmd not in self._graphs:
            b = interp.Builder(self.program).build(cmd)
            self._graphs[cmd] = b
            self.check_graph_health(cmd, b)
        return self._graphs[cmd]

    def check_graph_health(self, cmd, b):
        self.recursion_cuts = getattr(self, 'recursion_cuts', [])
        for n in b.nodes('recursion-cut'):
            self.recursion_cuts.append('%s graph: recursive call of %s cut at %s' % (
                cmd, n.data.get('func'), n.loc()))
        bad = b.nodes('unresolved', 'unclassified-prim')
        for n in bad:
            raise AnalysisError('%s graph: %s at %s: %s' % (
                cmd, n.kind, n.loc(), n.data.get('what') or n.data.get('prim')
                or n.data.get('func')))
        dynamic = ('eval', 'exec', '__import__', 'importlib.import_module', 'globals',
                   'locals', 'setattr', 'delattr', 'compile', 'runpy.run_path',
                   'runpy.run_module', 'ctypes.CDLL', 'os.fork', 'os.kill',
                   'multiprocessing.Process', 'threading.Thread')
        for n in b.nodes('ext'):
            if n.data.get('fn') in dynamic:
                raise AnalysisError('%s graph: dynamic feature %s at %s is outside the '
                                    'analysed language (A5)' % (cmd, n.data['fn'], n.loc()))
        for kind, loc, msg in b.diags:
            if kind in ('unsupported-expr', 'unsupported-stmt', 'unbound-name',
                        'star-kwargs', 'global-stmt', 'unsupported-target',
                        'missing-global', 'missing-module-attr'):
                raise AnalysisError('%s graph: %s at %s: %s' % (cmd, kind, loc, msg))

    # obligations ----------------------------------------------------------
    def ob(self, rule, what, ok, node=None, construct=None, text=None, message=None,
           extra=None, sample=None):
        """Record one obligation; a failed one becomes a finding."""
        self.instances[rule] = self.instances.get(rule, 0) + 1
        rec = {'rule': rule, 'what': what, 'ok': bool(ok)}
        if node is not None:
            rec['at'] = node.loc()
        self.obligations.append(rec)
        if sample is not None or len(self.samples) < 400:
            s = dict(rec)
            if sample is not None:
                s['detail'] = sample
            self.samples.append(s)
        if not ok:
            f = self.finding(rule, node=node, construct=construct, text=text,
                             message=message or what, extra=extra)
            f.what = what
        return ok

    def finding(self, rule, node=None, construct=None, text=None, message='', extra=None):
        if node is not None:
            construct = construct or node.func
            text = text if text is not None else (node.src or '')
            loc = node.loc()
            path = node.path()
        else:
            loc = None
            path = []
        f = Finding(self.prop, rule, construct or '?', text or '', message, loc, path, extra)
        for g in self.findings:
            if g.key() == f.key():
                return g
        self.findings.append(f)
        return f

    def expect(self, rule, minimum, what=None):
        """Vacuity guard: the rule must have examined at least ``minimum`` instances."""
        n = self.instances.get(rule, 0)
        if n < minimum:
            raise AnalysisError('%s examined %d instance(s), fewer than the %d confirmed '
                                'by hand%s' % (rule, n, minimum,
                                               ' (%s)' % what if what else ''))

    def require(self, cond, msg):
        if not cond:
            raise AnalysisError(msg)

    def note(self, msg):
        self.notes.append(msg)


def load_known():
    if not os.path.exists(KNOWN):
        return {'findings': [], 'fixed': []}
    with open(KNOWN) as fh:
        return json.load(fh)


def is_known(f, known):
    for k in known.get('findings', []):
        if k.get('property') == f.prop and k.get('rule') == f.rule and \
                k.get('construct') == f.construct and norm_text(k.get('text')) == f.text:
            return k
    return None


def write_evidence(ctx, prop, explanation, assumptions, violations, extra_cov=None,
                   evidence_dir=None):
    evidence_dir = evidence_dir or os.path.join(VERIF, 'evidence')
    os.makedirs(evidence_dir, exist_ok=True)
    obligations = len(ctx.obligations)
    discharged = sum(1 for o in ctx.obligations if o['ok'])
    distinct = len(set((o['rule'], o['what'], o.get('at')) for o in ctx.obligations))
    graphs = {}
    for cmd, b in ctx._graphs.items():
        s = b.summary()
        graphs[cmd] = {'nodes': s['nodes'], 'effects': s['by_kind'].get('effect', 0),
                       'probes': s['by_kind'].get('probe', 0),
                       'assumes': s['by_kind'].get('assume', 0),
                       'calls_inlined': s['stats']['inlined'],
                       'external_calls': s['stats']['external'],
                       'resolved_by_name': s['stats']['by_name'],
                       'unresolved': s['stats']['unresolved'],
                       'generators_woven': s['stats']['generators_woven']}
    samples = []
    seen_rules = {}
    for s in ctx.samples:
        c = seen_rules.get(s['rule'], 0)
        if c < 4:
            samples.append(s)
            seen_rules[s['rule']] = c + 1
    catalogue = {}
    for o in ctx.obligations:
        e = catalogue.setdefault(o['rule'], {}).setdefault(
            o['what'], {'instances': 0, 'discharged': 0, 'sites': []})
        e['instances'] += 1
        e['discharged'] += 1 if o['ok'] else 0
        if o.get('at') and o['at'] not in e['sites'] and len(e['sites']) < 6:
            e['sites'].append(o['at'])
    cov = {
        'explanation': explanation,
        'rule_catalogue': catalogue,
        'rules_shared_with_sibling_properties': getattr(ctx, 'imported', {}),
        'obligations': obligations,
        'discharged': discharged,
        'evaluations': max(obligations, 1),
        'distinct_nontrivial': max(distinct, 0),
        'rule': 'one obligation per (rule, construct instance) found in the inlined '
                'effect graphs / syntax trees of the current working tree; distinct = '
                'distinct (rule, statement, location) triples',
        'samples': samples or [{'note': 'no obligations'}],
        'rule_instances': dict(ctx.instances),
        'graphs': graphs,
        'modules_parsed': len(ctx.program.modules),
        'functions_parsed': sum(1 for _ in ctx.program.all_functions()),
        'source_digest': ctx.program.digest,
        'repo': ctx.repo,
        'checker_cmd': 'bin/check %s --tier %s' % (prop, ctx.tier),
        'trusted_base': ['CPython ast', 'tcsa primitive tables (tcsa/prims.py)',
                         'DESIGN.md §8 assumptions A1-A6'],
        'exhaustive': True,
        'notes': ctx.notes,
        'findings': [f.as_dict() for f in ctx.findings],
    }
    if extra_cov:
        cov.update(extra_cov)
    ev = {
        'property_id': prop,
        'tier': ctx.tier,
        'seed': int(os.environ.get('VERIF_SEED', '0') or 0),
        'level': 'other',
        'coverage': cov,
        'assumptions': assumptions,
        'wall_s': round(time.time() - ctx.t0, 3),
        'violations': violations,
    }
    path = os.path.join(evidence_dir, '%s.json' % prop)
    tmp = path + '.tmp'
    with open(tmp, 'w') as fh:
        json.dump(ev, fh, indent=1, sort_keys=True, default=str)
    os.replace(tmp, path)
    return path


def run_also(ctx, prop, module):
    """Rules of sibling properties that are necessary conditions of this property as
    well (module.ALSO = {'Cyy': {'Ryy.n': reason}}): evaluated by the sibling's module on
    the same graphs and reported under this property.  They are extras: when the sibling
    cannot run (its anchors vanished) that is noted, the property's own rules decide."""
    import importlib
    ctx.imported = {}
    for oprop, rules in sorted(getattr(module, 'ALSO', {}).items()):
        om = importlib.import_module('tcsa.rules.%s' % oprop.lower())
        sub = Ctx.__new__(Ctx)
        sub.prop, sub.repo, sub.tier = prop, ctx.repo, ctx.tier
        sub.program, sub._graphs = ctx.program, ctx._graphs
        sub.obligations, sub.findings, sub.instances = [], [], {}
        sub.notes, sub.samples, sub.t0 = [], [], ctx.t0
        sub.recursion_cuts = getattr(ctx, 'recursion_cuts', [])
        try:
            om.check(sub)
        except AnalysisError as e:
            ctx.note('rules %s of %s not evaluated here: %s' % (sorted(rules), oprop, e))
            if not sub.findings:
                continue
        def wanted(rule, text):
            if rule not in rules:
                return False
            why = rules[rule]
            # (reason, prefix): only the instances about one command
            return not isinstance(why, tuple) or (text or '').startswith(why[1])
        for o in sub.obligations:
            if wanted(o['rule'], o['what']):
                ctx.obligations.append(o)
                ctx.instances[o['rule']] = ctx.instances.get(o['rule'], 0) + 1
        seen = {}
        for smp in sub.samples:
            if wanted(smp['rule'], smp['what']) and seen.get(smp['rule'], 0) < 4:
                seen[smp['rule']] = seen.get(smp['rule'], 0) + 1
                ctx.samples.append(smp)
        for f in sub.findings:
            if wanted(f.rule, getattr(f, 'what', None) or f.message) and \
                    not any(g.key() == f.key() for g in ctx.findings):
                ctx.findings.append(f)
        for r_, why in rules.items():
            ctx.imported[r_] = '%s (rule of %s%s)' % (
                why[0] if isinstance(why, tuple) else why, oprop,
                ', instances "%s..."' % why[1] if isinstance(why, tuple) else '')


def run_check(prop, module, repo, tier, evidence_dir=None, replay_dir=None, quiet=False):
    """Run one property's rules; print the verdict lines; return the exit code."""
    out = sys.stdout
    replay_dir = replay_dir or os.path.join(VERIF, 'replay')
    ctx = None
    try:
        ctx = Ctx(prop, repo, tier)
        module.check(ctx)
        run_also(ctx, prop, module)
        if getattr(ctx, 'recursion_cuts', None) and not ctx.findings:
            # the body of a recursive function is analysed once; a pass obtained with
            # a recursion cut in the graph is not trusted
            raise AnalysisError('; '.join(sorted(set(ctx.recursion_cuts))[:3]))
        for rc in sorted(set(getattr(ctx, 'recursion_cuts', []))):
            ctx.note(rc)
        if hasattr(module, 'MINIMUM') and not ctx.findings:
            # vacuity guard: a rule that matched fewer sites than confirmed by
            # hand must not pass silently (skipped when findings are reported)
            # a rule that examined nothing passes vacuously: that is an error.  The
            # counts confirmed by hand on the pinned tree are kept for the record (a
            # restructured tree legitimately has fewer or more instances): falling
            # below them is noted in the evidence, falling to zero fails the check
            for rule, mn in module.MINIMUM.items():
                ctx.expect(rule, min(mn, 1))
                if ctx.instances.get(rule, 0) < mn:
                    ctx.note('%s examined %d instance(s); %d were confirmed by hand on the '
                             'pinned tree' % (rule, ctx.instances.get(rule, 0), mn))
        known = load_known()
        new = []
        for f in ctx.findings:
            k = is_known(f, known)
            if k is not None:
                out.write('KNOWN-FINDING: property=%s %s %s: %s\n'
                          % (prop, f.rule, f.construct, k.get('what') or f.message))
            else:
                new.append(f)
        write_evidence(ctx, prop, module.EXPLANATION, module.ASSUMPTIONS, len(new),
                       evidence_dir=evidence_dir)
        if not quiet:
            out.write('%s: %d obligations, %d discharged, %d finding(s) (%d known) '
                      '[%s tier, %.2fs, repo %s]\n'
                      % (prop, len(ctx.obligations),
                         sum(1 for o in ctx.obligations if o['ok']), len(ctx.findings),
                         len(ctx.findings) - len(new), tier, time.time() - ctx.t0, repo))
            for rule in sorted(ctx.instances):
                out.write('  %-7s %d instance(s)\n' % (rule, ctx.instances[rule]))
        if new:
            os.makedirs(replay_dir, exist_ok=True)
            for i, f in enumerate(new):
                rp = os.path.join(replay_dir, '%s-%d.json' % (prop, i))
                with open(rp, 'w') as fh:
                    json.dump(dict(f.as_dict(), repo=repo), fh, indent=1, default=str)
                out.write('  %s %s at %s: %s\n' % (f.rule, f.construct, f.loc, f.message))
                for step in f.path:
                    out.write('      via %s\n' % step)
                out.write('VIOLATION property=%s replay=%s\n' % (prop, rp))
            return 1
        return 0
    except AnalysisError as e:
        out.write('ANALYSIS-ERROR property=%s %s\n' % (prop, e))
        return 2
    except Exception:
        out.write('ANALYSIS-ERROR property=%s internal error\n' % prop)
        traceback.print_exc(file=out)
        return 2
