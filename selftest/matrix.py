"""Fire / silent matrix for the checker's self-test (DESIGN §7).

Each entry edits a scratch copy of the tree under analysis.  'fire' entries
break a property and name, per property, the rule(s) of which at least one must
newly report; 'silent' entries are behaviour-preserving and must not change any
verdict.  Entries whose anchor text no longer occurs exactly once are reported
as stale and skipped (the tree under analysis may carry other edits).
"""
MUTANTS = []


def F(id, fire, edits, what=''):
    MUTANTS.append({'id': id, 'kind': 'fire', 'props': sorted(fire), 'fire': fire,
                    'edits': edits, 'what': what})


def S(id, props, edits, what=''):
    MUTANTS.append({'id': id, 'kind': 'silent', 'props': sorted(props), 'fire': {},
                    'edits': edits, 'what': what})


RM_CAN = 'trashcli/rm/cleanable_trashcan.py'
EMPTIER = 'trashcli/empty/emptier.py'
RESTORER = 'trashcli/restore/restorer.py'
FS = 'trashcli/fs.py'

# ------------------------------------------------------------------ C15
F('c15-rm-swap', {'C15': ['R15.3']}, [(RM_CAN,
  """        self._file_remover.remove_file_if_exists(backup_copy)
        self._file_remover.remove_file2(trash_info_path)""",
  """        self._file_remover.remove_file2(trash_info_path)
        self._file_remover.remove_file_if_exists(backup_copy)""")],
  'trash-rm removes the .trashinfo before the payload')
F('c15-empty-yield-info-first', {'C15': ['R15.2']}, [(EMPTIER,
  """                    yield (path_of_backup_copy(trash_info_path))
                    yield trash_info_path""",
  """                    yield trash_info_path
                    yield (path_of_backup_copy(trash_info_path))""")],
  'trash-empty yields the .trashinfo before the payload')
F('c15-restore-remove-first', {'C15': ['R15.1']}, [(RESTORER,
  """        self.write_fs.move(trashed_file.original_file, trashed_file.original_location)
        self.write_fs.remove_file(trashed_file.info_file)""",
  """        self.write_fs.remove_file(trashed_file.info_file)
        self.write_fs.move(trashed_file.original_file, trashed_file.original_location)""")],
  'trash-restore removes the .trashinfo before moving the payload out')
F('c15-restore-remove-in-finally', {'C15': ['R15.1']}, [(RESTORER,
  """        self.write_fs.move(trashed_file.original_file, trashed_file.original_location)
        self.write_fs.remove_file(trashed_file.info_file)""",
  """        try:
            self.write_fs.move(trashed_file.original_file, trashed_file.original_location)
        finally:
            self.write_fs.remove_file(trashed_file.info_file)""")],
  'trash-restore removes the .trashinfo even when the move failed')
F('c15-rm-not-tolerant', {'C15': ['R15.4']}, [(RM_CAN,
  "self._file_remover.remove_file_if_exists(backup_copy)",
  "self._file_remover.remove_file2(backup_copy)")],
  'trash-rm payload removal raises when the payload is already gone (re-run cannot complete)')
F('c15-empty-no-orphans', {'C15': ['R15.4']}, [(EMPTIER,
  """            for orphan in self.trash_dir_reader.list_orphans(
                    trash_dir.path):
                yield orphan
""", "")],
  'trash-empty no longer purges payloads without .trashinfo')
F('c15-empty-sorted-consumer', {'C15': ['R15.2']}, [(EMPTIER,
  "for path in self.files_to_delete(trash_dirs, environ, parsed_days):",
  "for path in sorted(self.files_to_delete(trash_dirs, environ, parsed_days), reverse=True):")],
  'trash-empty collects and reorders the paths to delete (info may precede payload)')
S('c15-rm-helper-extraction', ['C15', 'C11', 'C12'], [(RM_CAN,
  """        backup_copy = path_of_backup_copy(trash_info_path)
        self._file_remover.remove_file_if_exists(backup_copy)
        self._file_remover.remove_file2(trash_info_path)""",
  """        self._drop_payload(trash_info_path)
        self._drop_info(trash_info_path)

    def _drop_payload(self, info):
        payload = path_of_backup_copy(info)
        self._file_remover.remove_file_if_exists(payload)

    def _drop_info(self, info):
        self._file_remover.remove_file2(info)""")],
  'helper extraction in CleanableTrashcan')
S('c15-remove-unlink', ['C15', 'C11'], [(FS,
  """class RealRemoveFile2(RemoveFile2):
    def remove_file2(self, path):
        try:
            os.remove(path)""",
  """class RealRemoveFile2(RemoveFile2):
    def remove_file2(self, path):
        try:
            os.unlink(path)""")],
  'os.unlink instead of os.remove')
