"""C01 -- trash-put conserves data: each argument ends fully trashed or untouched."""
from .common import *  # noqa
from .putroles import PutRoles, is_left_test, either_rets, fails_closed, precedes
from .. import prims

EXPLANATION = (
    'Necessary structural conditions on the trash-put graph.  R01.1 (contradiction rule): '
    'the dot-entry guard and the move sink must agree on trailing separators -- if the MOVE '
    'source strips them (normpath), some comparison with "." and with ".." must look at a '
    'value that also strips them.  R01.2: every mutating effect is dominated by the guard '
    'being false and by a no-follow presence probe of the argument being true.  R01.3: '
    'after the exclusive creation of INFO every fault-free path, and every exceptional exit '
    'of the MOVE, reaches MOVE-completed or DELETE(INFO) before the attempt is left.  '
    'R01.4: every Either result that may be a failure is tested negative before the next '
    'effect and before success is constructed.  R01.5: after a completed MOVE no further '
    'attempt for the same argument.  R01.6: closed effect set; DELETE only of INFO; MOVE '
    'source derives from the argument through path normalisers only.  R01.7: the MOVE '
    'whose only failure handling is "delete INFO" must be failure-atomic (rename, or '
    'shutil.move only under errno == EXDEV).  Does not decide that rename preserves '
    'bytes/modes/mtimes, nor outcomes inside a cross-device copy.')
ASSUMPTIONS = [
    'A1 rename(2) is atomic and fails without side effect',
    'A2 shutil.move = rename, else on ANY OSError copy + delete (stdlib source)',
    'A4 no concurrent modification between probe and effect',
]
MINIMUM = {'R01.1': 2, 'R01.2': 6, 'R01.3': 1, 'R01.4': 4, 'R01.5': 1, 'R01.6': 3,
           'R01.7': 1, 'R01.8': 1}
ALLOWED_KINDS = {'CREATE_DIR', 'OPEN_FD', 'WRITE', 'CLOSE', 'MOVE', 'DELETE'}
NORMALISERS = {'os.path.normpath', 'os.path.abspath', 'posixpath.normpath'}


# rules of sibling properties that are necessary conditions of this one too
# (evaluated by the sibling module on the same graphs, reported under this property)
ALSO = {'C16': {'R16.2': 'an exception that leaves the per-argument loop ends the run with a non-zero status after arguments have been moved (and the remaining ones are never attempted)'},
 'C02': {'R02.2': 'the moved entry keeps modes and mtimes when the move has to copy'},
 'C04': {'R04.6': 'a .trashinfo released by a process that did not reserve it leaves another '
                  "entry's payload without info"},
 'C05': {'R05.3': 'the payload is renamed within one volume (after resolving links): a copy '
                  'that fails half way leaves payload in two trash directories'},
 'C17': {'R17.3': 'a failed write/close must not leave a stray .trashinfo'}}

def strips_trailing_sep(chain, term, is_arg):
    if chain & prims.TRAILING_SEP_STRIPPERS:
        return True
    if 'method:rstrip' in chain or 'method:strip' in chain:
        for x in walk(term):
            if isinstance(x, MCall) and x.name in ('rstrip', 'strip') and x.args:
                a = strip(x.args[0])
                if is_const(a, '/') or (isinstance(a, ExtRef) and
                                        a.qualname in ('os.sep', 'os.path.sep')):
                    return True
    return False


def dot_comparisons(cond):
    """[(literal, other operand)] for comparisons with '.' / '..' inside cond."""
    out = []
    for x in walk(cond):
        if isinstance(x, Cmp) and x.op in ('==', '!=', 'in', 'not in'):
            for lit, other in ((x.left, x.right), (x.right, x.left)):
                lit = strip(lit)
                if isinstance(lit, Const) and lit.value in ('.', '..'):
                    out.append((lit.value, other))
                elif isinstance(lit, (TupleT,)) or (isinstance(lit, ListObj)):
                    for it in lit.items:
                        if isinstance(it, Const) and it.value in ('.', '..'):
                            out.append((it.value, other))
                elif isinstance(lit, Const) and isinstance(lit.value, tuple):
                    for v in lit.value:
                        if v in ('.', '..'):
                            out.append((v, other))
    return out


def check(ctx):
    r = PutRoles(ctx)
    b, g = r.b, r.g
    first_effects = r.muts

    # ------------------------------------------------------------ R01.1 / R01.2
    guard_nodes = []      # assume nodes: dot-guard is false
    guard_cmps = []
    for n in b.nodes('assume'):
        c, pol = unwrap_not(n.data['cond'], n.data['pol'])
        dc = [(lit, o) for lit, o in dot_comparisons(c) if r.mentions_arg(o)]
        if dc and not pol:
            guard_nodes.append(n)
            guard_cmps.extend(dc)
    # the guard dominates the effects -- or, when its verdict is handed back by a helper
    # and tested by the caller, cuts every run-consistent path to them
    if guard_nodes and not all(
            any(g.dominates(n.id, e.id) for n in guard_nodes) or
            cut_c(b, r.arg_iteration, e.id, [n.id for n in guard_nodes]) for e in r.muts):
        guard_nodes, guard_cmps = [], []
    ctx.require(r.muts, 'C01: trash-put has no mutating effect at all (anchor vanished)')
    if not r.moves:
        ctx.ob('R01.7', 'the payload is transferred by a MOVE primitive', False,
               node=r.muts[-1],
               message='no rename/move primitive is reachable from trash-put: the payload '
                       'is transferred by %s, which is not failure-atomic'
                       % sorted(set(e.data['prim'] for e in r.muts)))
    if not guard_nodes:
        ctx.ob('R01.2', 'a dot-entry guard dominates every effect', False,
               node=(r.moves or r.muts)[0], message='no comparison of the argument with "." / ".." '
                                        'dominates the effects of trash-put')
    for m in r.moves:
        src = m.data['roles']['src']
        chain = transformer_chain(src, r.is_arg)
        if chain is None:
            ctx.ob('R01.6', 'MOVE source is the argument, through path normalisers only',
                   False, node=m,
                   message='trash-put moves %s, which does not derive from the argument '
                           '(something else than the entry named is renamed into the trash '
                           'directory)' % short(src, 100))
            continue
        sink_strips = strips_trailing_sep(chain, src, r.is_arg)
        for lit in ('.', '..'):
            ops = [o for l, o in guard_cmps if l == lit]
            if not sink_strips:
                ctx.ob('R01.1', 'guard and sink agree on trailing separators (%r)' % lit,
                       bool(ops), node=m)
                continue
            agree = any(strips_trailing_sep(transformer_chain(o, r.is_arg) or set(), o,
                                            r.is_arg) for o in ops)
            gn = guard_nodes[0] if guard_nodes else m
            ctx.ob('R01.1', 'guard and sink agree on trailing separators (%r)' % lit,
                   agree, node=gn,
                   message='the dot-entry guard compares %s with %r, but the move acts on '
                           '%s: for "%s/" the guard sees an empty basename and the whole '
                           'directory is moved (then the move fails half-way and the info '
                           'is removed)' % ([short(o, 60) for o in ops][:1], lit,
                                            short(src, 60), lit))
    for e in r.muts:
        ctx.ob('R01.2', 'effect dominated by "not a dot entry"', True, node=e)

        def present_nofollow(c2, pol2):
            pn = probe_result_of(c2)
            if pn is None or not pol2:
                return False
            pd = g.n(pn).data
            return pd['role'] == 'presence' and not pd['follow'] and \
                alt_ids(pd['args'][0]) == r.arg_ids
        probe_ok = established(b, e.id, present_nofollow, start=r.arg_iteration)
        ctx.ob('R01.2', 'effect dominated by a no-follow presence probe of the argument',
               probe_ok, node=e,
               message='%s happens without a no-follow existence test of the argument '
                       '(os.path.exists would treat a dangling symlink as absent)'
                       % e.data['kind'])

    # ------------------------------------------------------------ R01.3
    for o in r.opens:
        info_ids = alt_ids(r.info_of(o))
        moves = [m for m in r.moves
                 if all(match_pbc(a) is not None for a in flat(m.data['roles']['dst']))
                 and frozenset(cid(match_pbc(a)) for a in flat(m.data['roles']['dst']))
                 == info_ids]
        rels = [d for d in r.deletes if alt_ids(d.data['roles']['path']) == info_ids]
        absent = []
        for n in b.nodes('assume'):
            c, pol = unwrap_not(n.data['cond'], n.data['pol'])
            pn = probe_result_of(c)
            if pn is not None and not pol and g.n(pn).data['role'] == 'presence' and \
                    not g.n(pn).data['follow'] and \
                    alt_ids(g.n(pn).data['args'][0]) == info_ids:
                absent.append(n.id)
        rel_ids = set(x.id for x in rels) | set(absent)
        stop = set(x.id for x in moves) | rel_ids
        bad_targets = [g.exit, g.escape, o.id]
        leak = [t for t in bad_targets
                if feasible_path(b, normal_successors(b, o.id), t, stop, normal_edge)]
        ctx.ob('R01.3', 'a reserved .trashinfo is followed by MOVE or released, on every '
                        'fault-free path', not leak, node=o,
               message='after creating the .trashinfo the attempt can end (or retry) '
                       'without moving the payload or deleting the info: stray .trashinfo')
        for m in moves:
            exc = exc_successors(b, m.id)
            others = set(x.id for x in moves if x.id != m.id)   # fallback moves
            leak2 = [t for t in bad_targets
                     if exc and feasible_path(b, exc, t, rel_ids | others)]
            ctx.ob('R01.3', 'a failed MOVE always leads to DELETE(INFO)',
                   bool(exc) and not leak2, node=m,
                   message='when the move fails the .trashinfo is not removed on every '
                           'path (stray info for an untrashed file)' if exc else
                           'MOVE has no modelled failure edge')
            caught = [h for c, h, t, s in m.data.get('raises', []) if h == 'escape']
            ctx.ob('R01.3', 'a failed MOVE is handled inside the attempt', not caught,
                   node=m, message='an OSError of the move escapes the attempt')

    # ------------------------------------------------------------ R01.8
    # "under files/ of exactly one trash directory, next to a same-named .trashinfo":
    # the destination name must be known to be free (no-follow), else the payload is
    # merged into / replaces an orphan
    for o in r.opens:
        info_ids = alt_ids(r.info_of(o))
        free = False
        for c, pol, n in guards(b, o.id):
            c2, pol2 = unwrap_not(c, pol)
            pn = probe_result_of(c2)
            if pn is None or pol2:
                continue
            pd = g.n(pn).data
            tg = [match_pbc(a) for a in flat(pd['args'][0])] if pd['args'] else []
            if pd['role'] == 'presence' and not pd['follow'] and tg and \
                    all(t is not None for t in tg) and \
                    frozenset(cid(t) for t in tg) == info_ids:
                free = True
        ctx.ob('R01.8', 'the payload name is known to be free (no-follow) before it is '
                        'reserved', free, node=o,
               message='a name is reserved although files/<name> may exist: a directory '
                       'argument is then moved INTO an orphan directory of that name (or '
                       'replaces an orphan), so the entry does not sit under files/ as '
                       'itself')
    # ------------------------------------------------------------ R01.4
    either_rule(ctx, r)

    # ------------------------------------------------------------ R01.5
    for m in r.moves:
        again = [o for o in r.opens + r.moves
                 if feasible_path(b, normal_successors(b, m.id), o.id, [r.arg_loop.id])]
        ctx.ob('R01.5', 'after a completed MOVE no further attempt for the same argument',
               not again, node=m,
               message='after the payload was moved the candidate loop goes on: the next '
                       'candidate fails on the now missing file, or trashes something '
                       'else with that name')

    # ------------------------------------------------------------ R01.6
    for e in r.muts:
        ctx.ob('R01.6', 'effect kind is one of the six of the put protocol',
               e.data['kind'] in ALLOWED_KINDS, node=e,
               message='trash-put performs %s (%s)' % (e.data['kind'], e.data['prim']))
    info_ids_all = set()
    for o in r.opens:
        info_ids_all |= alt_ids(r.info_of(o))
    for d in r.deletes:
        ctx.ob('R01.6', 'DELETE argument is the reserved .trashinfo', alt_ids(
            d.data['roles']['path']) <= info_ids_all, node=d,
            message='trash-put deletes %s, which is not the .trashinfo it created'
                    % short(d.data['roles']['path'], 100))
    for m in r.moves:
        src = m.data['roles']['src']
        chain = transformer_chain(src, r.is_arg) or set()
        pure = chain <= NORMALISERS and only_arg_leaves(src, r.is_arg)
        ctx.ob('R01.6', 'MOVE source is the argument, through path normalisers only', pure,
               node=m, message='the moved path is %s (functions applied: %s)'
                               % (short(src, 100), sorted(chain)))

    # ------------------------------------------------------------ R01.7
    for m in r.moves:
        ok, why = failure_atomic(b, m)
        ctx.ob('R01.7', 'the MOVE is failure-atomic', ok, node=m,
               message='%s: on any rename error other than EXDEV (EBUSY for a mount point, '
                       'EINVAL for "dir/.", EPERM ...) it copies the tree and deletes the '
                       'source piecemeal; when that fails half-way the handler removes the '
                       '.trashinfo and reports failure for an argument that has been '
                       'emptied' % why)


def only_arg_leaves(t, is_arg):
    """Every leaf of t (below calls / Phis) is the argument or a constant."""
    if is_arg(t):
        return True
    if isinstance(t, Const):
        return True
    if isinstance(t, Phi):
        return all(only_arg_leaves(a, is_arg) for a in t.terms())
    if isinstance(t, Call):
        return all(only_arg_leaves(a, is_arg) for a in t.args) and not t.kwargs
    return False


def pins_exdev(c2, pol2):
    """The (unwrapped) condition holds exactly when errno is EXDEV: errno == EXDEV, or
    errno in (EXDEV,) -- not a longer list of errno values."""
    if not isinstance(c2, Cmp):
        return False
    if not contains(c2, lambda x: isinstance(x, ExtRef) and x.qualname == 'errno.EXDEV'):
        return False
    if not ((c2.op in ('==', 'in') and pol2) or (c2.op in ('!=', 'not in') and not pol2)):
        return False
    others = [x for side in (c2.left, c2.right) for x in walk(side)
              if (isinstance(x, ExtRef) and x.qualname.startswith('errno.') and
                  x.qualname != 'errno.EXDEV') or
              (isinstance(x, Const) and isinstance(x.value, int))]
    return not others


def failure_atomic(b, m):
    g = b.g
    prim = m.data['prim']
    if prim in ('os.rename', 'os.replace'):
        return True, ''
    if prim != 'shutil.move':
        return False, '%s is not a known atomic move' % prim
    h = last_dominating(b, m.id, 'handler')
    if h is not None:
        srcs = [(s, l) for s, l in g.pred[h] if s in b.live]
        from_rename = srcs and all(g.n(s).kind == 'effect' and g.n(s).data['prim'] in
                                   ('os.rename', 'os.replace') for s, l in srcs)
        exdev = False
        for c, pol, n in guards(b, m.id):
            if not g.dominates(h, n.id):
                continue
            c2, pol2 = unwrap_not(c, pol)
            if pins_exdev(c2, pol2):
                exdev = True
        if from_rename and exdev:
            return True, ''
    # the same, when the verdict "EXDEV" is handed back by a helper and tested by the
    # caller: every run-consistent path to the fallback passes "errno == EXDEV" inside a
    # handler that is fed by renames only
    exdev_nodes = []
    for n in b.nodes('assume'):
        c2, pol2 = unwrap_not(n.data['cond'], n.data['pol'])
        if not pins_exdev(c2, pol2):
            continue
        hh = last_dominating(b, n.id, 'handler')
        if hh is None:
            continue
        srcs = [(s_, l) for s_, l in g.pred[hh] if s_ in b.live]
        if srcs and all(g.n(s_).kind == 'effect' and g.n(s_).data['prim'] in
                        ('os.rename', 'os.replace') for s_, l in srcs):
            exdev_nodes.append(n.id)
    if exdev_nodes and cut_c(b, g.entry, m.id, exdev_nodes):
        return True, ''
    return False, 'shutil.move is called directly'


def either_rule(ctx, r):
    b, g = r.b, r.g
    # values that may be a failure object, returned into a frame that goes on to effects
    rets = either_rets(b, r.arg_iteration)
    success_sites = []
    for n in b.nodes('new'):
        o = n.data.get('obj')
        if o is not None and is_const(strip(o.fields.get('ok', NONE)), True):
            success_sites.append(n)
    cache = {}
    for rt in rets:
        later = [e for e in r.muts if precedes(b, r, rt.id, e.id, cache)] + \
                [s for s in success_sites if precedes(b, r, rt.id, s.id, cache)]
        for e in later:
            ok = fails_closed(b, rt, e.id, cache)
            ctx.ob('R01.4', 'a possibly-failed step is tested before the next effect / '
                            'before success', ok, node=rt,
                   construct=g.n(rt.id).func, text=g.n(rt.id).src or '',
                   message='the result of %s may be a failure, yet %s at %s is reached '
                           'without testing it' % (
                               rt.data['func'].qualname,
                               e.data.get('kind', 'success result'), e.loc()))
        if not later:
            ctx.ob('R01.4', 'Either result examined', True, node=rt)
