"""C16 -- trash-put's exit status tells the truth; arguments are handled independently."""
from .common import *  # noqa
from .putroles import PutRoles
from ..model import EXC_PARENT

EXPLANATION = (
    'On the trash-put graph, for the loop over the file arguments: (R16.1) the loop is left '
    'only when exhausted (no break/return inside), the failure list grows exactly under '
    '"result is Failure" with the argument itself, and the exit code is EX_OK exactly when '
    'that list is empty; (R16.2) isolation barrier: no exception that the environment or '
    'the input can induce (OSError, ValueError incl. Unicode errors, TypeError from arity) '
    'raised inside one iteration is caught outside it or escapes -- exempt, each with its '
    'reason: user abort at the prompt (EOFError/KeyboardInterrupt), a raising probe on a '
    'path already probed successfully on every path to it (A4), and the release of the '
    'reservation inside the move-failure handler; (R16.3) every return of Failure is '
    'dominated by a WARNING-level log call whose message contains the argument; (R16.4) no '
    'state is carried from one argument to the next (no store into, or append to, an '
    'object created before the iteration, except the failure list); (R16.5) from the exceptional exit of a payload MOVE no run-consistent path reaches a Success verdict without another MOVE succeeding first.  Equality of each '
    'argument\'s outcome with its stand-alone outcome is not decided.')
ASSUMPTIONS = ['A4/A5/A6 of DESIGN.md section 8',
               'programmer-assertion raises (constant-message ValueError/Exception in '
               'defensive branches) are stated beliefs, listed in evidence']
MINIMUM = {'R16.1': 4, 'R16.2': 8, 'R16.3': 3, 'R16.4': 1, 'R16.5': 1}
MODELLED = ('OSError', 'ValueError', 'TypeError', 'UnicodeError', 'UnicodeEncodeError',
            'UnicodeDecodeError', 'KeyError', 'IndexError', 'AttributeError', 'Exception')






# rules of sibling properties that are necessary conditions of this one too
# (evaluated by the sibling module on the same graphs, reported under this property)
ALSO = {'C01': {'R01.2': 'an existing argument (no-follow) is never skipped as nonexistent',
         'R01.3': 'a move that did not happen ends in the failure path (not in Success)'},
 'C18': {'R18.1': 'existence is decided without following links'}}

def exempt_reason(b, r, n, cls):
    g = b.g
    if cls in ('EOFError', 'KeyboardInterrupt') and n.kind == 'ext' and \
            n.data.get('fn') in ('input', 'raw_input'):
        return 'user abort at the prompt'
    if n.kind == 'raise' and n.data.get('belief'):
        return 'programmer assertion (stated belief): %s' % (n.src or '')[:60]
    if n.kind == 'probe' and cls == 'OSError':
        # A4: the same path was probed successfully (follow-probe true) on every path
        pid = alt_ids(n.data['args'][0]) if n.data['args'] else None
        for c, pol, a in guards(b, n.id):
            c2, p2 = unwrap_not(c, pol)
            for x in ([c2] + (list(c2.values) if isinstance(c2, BoolT) else [])):
                pn = probe_result_of(x)
                if pn is not None and p2 and g.n(pn).data['role'] in ('isfile', 'isdir',
                                                                       'presence') \
                        and alt_ids(g.n(pn).data['args'][0]) == pid:
                    if g.n(pn).data['follow'] or not n.data['follow']:
                        return 'A4: %s was just probed successfully by %s' % (
                            n.data['prim'], g.n(pn).data['prim'])
    if n.kind == 'effect' and n.data['kind'] == 'DELETE':
        # release of INFO inside the handler of a failed MOVE
        for d in g.dominators(n.id):
            dn = g.n(d)
            if dn.kind == 'handler':
                srcs = [s for s, l in g.pred[d] if l and l.startswith('exc:')]
                if srcs and all(g.n(s).kind == 'effect' and g.n(s).data['kind'] == 'MOVE'
                                or any(g.dominates(m.id, s) for m in r.moves)
                                for s in srcs):
                    infos = set()
                    for o in r.opens:
                        infos |= alt_ids(r.info_of(o))
                    if alt_ids(n.data['roles']['path']) <= infos:
                        return 'release of the reservation after a failed move'
    return None


def check(ctx):
    r = PutRoles(ctx)
    b, g = r.b, r.g
    loop = r.arg_loop
    region = r.body_nodes()
    # ---- R16.1
    ex = loop.data.get('exit')
    preds = [(p, l) for p, l in g.pred[ex] if p in b.live] if ex is not None else []
    ctx.ob('R16.1', 'the argument loop is left only when exhausted',
           ex is not None and all(p == loop.id for p, l in preds), node=loop,
           message='the loop over the arguments can be left early (%s): arguments after a '
                   'failing one are not processed' % [g.n(p).loc() for p, l in preds
                                                      if p != loop.id])
    leaves = [n for n in b.nodes('return', 'ext') if n.id in region and (
        (n.kind == 'return' and n.func == loop.func) or
        (n.kind == 'ext' and n.data.get('terminates')))]
    ctx.ob('R16.1', 'no return / exit inside the argument loop', not leaves, node=loop,
           construct=loop.func, text='return/exit in loop',
           message='the argument loop contains %s at %s' % (
               leaves[0].kind if leaves else '', leaves[0].loc() if leaves else ''))
    # the failure list: created before the loop, grows with the argument itself (in the
    # loop's function or in a result object it feeds)
    def outcome_tuple(v):
        t = strip(v)
        return isinstance(t, TupleT) and any(alt_ids(x) == r.arg_ids for x in t.items)
    appends = [n for n in b.nodes('append') if n.id in region and
               n.data['list'].site not in region and
               (n.func == loop.func or alt_ids(n.data['value']) == r.arg_ids)]
    # two-stage form: the loop collects (argument, result) pairs, a pass after the loop
    # keeps the arguments whose result is Failure -- the pass's appends are the failure
    # list then, the pairs only have to be collected for every Failure (checked below)
    stage1 = [a for a in appends if outcome_tuple(a.data['value'])]
    stage1_lists = set(cid(a.data['list']) for a in stage1)
    stage2 = [n for n in b.nodes('append') if n.id not in region and stage1 and
              alt_ids(n.data['value']) == r.arg_ids and
              any(g.n(l).kind == 'loop' and g.n(l).data.get('iter') is not None and
                  cid(strip(g.n(l).data['iter'])) in stage1_lists
                  for l in g.dominators(n.id))]
    collectors = [a for a in appends if a not in stage1] + stage2
    ctx.ob('R16.1', 'failures are collected in one list created before the loop',
           len(collectors) >= 1, node=loop, construct=loop.func, text='failure list',
           message='failed arguments are no longer collected')
    flist_ids = set()
    for a in collectors:
        flist_ids.add(cid(a.data['list']))
        val_ok = alt_ids(a.data['value']) == r.arg_ids
        guard_ok = False
        scope = region
        if a in stage2:
            scope = set()
            for l in g.dominators(a.id):
                ln = g.n(l)
                if ln.kind == 'loop' and ln.data.get('iter') is not None and \
                        cid(strip(ln.data['iter'])) in stage1_lists:
                    scope |= r.loop_body(ln)
        for c, pol, n in guards(b, a.id):
            c2, p2 = unwrap_not(c, pol)
            if isinstance(c2, Cmp) and c2.op in ('==', 'is') and p2 and any(
                    isinstance(strip(x), EnumVal) and strip(x).name == 'Failure'
                    for x in (c2.left, c2.right)) and n.id in scope:
                guard_ok = True
        ctx.ob('R16.1', 'the failure list grows with the argument exactly when its result is '
                        'Failure', val_ok and guard_ok, node=a,
               message='the failure list is appended %s%s' % (
                   'something else than the argument ' if not val_ok else '',
                   'not under "result is Failure"' if not guard_ok else ''))
    # a Failure result always reaches the append: no path from a Failure return to the next
    # iteration that avoids the append
    # (only the returns that *produce* the Failure: a return that hands on the result of
    # a helper carries the helper's return site as origin and is covered from there)
    fail_rets = [n for n in b.nodes('return') if n.id in region and
                 flat(n.data.get('value')) and all(
        isinstance(a, EnumVal) and a.name == 'Failure' for a in flat(n.data.get('value')))
        and all(o is None or o == n.id for a, o in alts(n.data.get('value')))]
    ctx.require(fail_rets, 'R16: no "return Failure" found in the per-argument code')
    for fr in fail_rets:
        skip = feasible_path(b, [fr.id], loop.id, blocked=[a.id for a in appends])
        ctx.ob('R16.1', 'a Failure result is always recorded', skip is None, node=fr,
               message='a Failure result can reach the next argument without being added to '
                       'the failure list (exit status 0 although an argument failed)')
    # ---- R16.5 a move that failed is never counted as trashed: from the exceptional exit
    # of a payload MOVE no consistent path reaches a "Success" verdict without another
    # MOVE (the next candidate) succeeding first -- whatever the errno
    succ_rets = [n for n in b.nodes('return') if n.id in region and
                 flat(n.data.get('value')) and all(
        isinstance(a, EnumVal) and a.name == 'Success' for a in flat(n.data.get('value')))
        and all(o is None or o == n.id for a, o in alts(n.data.get('value')))]
    for m in r.moves:
        starts = exc_successors(b, m.id)
        if not starts:
            continue
        bad = None
        for sr in succ_rets:
            pth = feasible_path(b, starts, sr.id, blocked=[x.id for x in r.moves] + [loop.id])
            if pth is not None:
                bad = sr
                break
        ctx.ob('R16.5', 'a failed move never ends in the verdict Success', bad is None, node=m,
               message='when this move fails the argument can still be reported as trashed '
                       '(%s reached without another move): exit status 0 and no diagnostic '
                       'although the entry is still in place' % (bad.loc() if bad else ''))
    # exit code
    exit_rets = [n for n in b.nodes('return') if g.exit in [t for t, _ in g.succ[n.id]]]
    ok_code = bad_code = False
    for n in b.nodes('return'):
        v = n.data.get('value')
        if v is None or n.id in region:
            continue
        for a, o in alts(v):
            is_ok = (isinstance(a, ExtRef) and a.qualname == 'os.EX_OK') or is_const(a, 0) \
                or (isinstance(a, Phi)) or (is_call(a, 'getattr') and len(a.args) >= 2 and
                                            is_const(strip(a.args[1]), 'EX_OK'))
            gl = list(guards(b, n.id))
            if o is not None and g.n(o).kind == 'assume':
                # alternative of a conditional expression: its own test counts
                gl += [(g.n(o).data['cond'], g.n(o).data['pol'], g.n(o))] + \
                    list(guards(b, o))
            for c, pol, an in gl:
                c2, p2 = unwrap_not(c, pol)
                mentions = contains(c2, lambda x: cid(x) in flist_ids)
                if not mentions:
                    continue
                cc = strip(c2)
                is_len = lambda t: is_call(strip(t), 'len') and \
                    cid(strip(t).args[0]) in flist_ids
                if isinstance(cc, Cmp) and is_len(cc.left) and is_const(strip(cc.right), 0):
                    empty_side = (cc.op in ('>', '!=') and not p2) or \
                        (cc.op == '==' and p2)
                elif cid(cc) in flist_ids or is_len(cc) or (
                        is_call(cc, 'bool') and len(cc.args) == 1 and
                        (cid(strip(cc.args[0])) in flist_ids or is_len(cc.args[0]))):
                    empty_side = not p2           # truthiness of the list / its length
                else:
                    continue                       # any(...), custom predicates: not accepted
                if is_ok and empty_side:
                    ok_code = True
                if not is_ok and not empty_side:
                    bad_code = True
    ctx.ob('R16.1', 'exit code is EX_OK exactly when the failure list is empty',
           ok_code and bad_code, construct='exit code', text='EX_OK iff no failure',
           message='the exit status is not derived from the emptiness of the failure list')
    # ---- R16.2
    exempted = []
    for n in b.nodes():
        if n.id not in region:
            continue
        for cls, how, target, soft in n.data.get('raises', []):
            if soft:
                continue
            outside = how == 'escape' or target not in region
            if not outside:
                ctx.ob('R16.2', '%s raised in one iteration is handled inside it' % cls, True,
                       node=n)
                continue
            why = exempt_reason(b, r, n, cls)
            if why:
                exempted.append('%s at %s: %s' % (cls, n.loc(), why))
                ctx.ob('R16.2', '%s leaving the iteration is exempt (%s)' % (cls, why), True,
                       node=n)
                continue
            ctx.ob('R16.2', 'no %s leaves the per-argument iteration' % cls, False, node=n,
                   message='%s raised by %s is not handled inside the iteration for one '
                           'argument: trash-put aborts with a traceback and the remaining '
                           'arguments are not processed' % (cls, (n.src or '')[:80]))
    # a constant index into the user's reply needs the reply to be non-empty: Enter alone
    # is a legitimate answer (IndexError is not modelled as an edge, hence this rule)
    def from_prompt(t):
        return contains(t, lambda x: isinstance(x, Call) and x.fn in ('input', 'raw_input'))
    seen_idx = set()
    for n in b.nodes():
        if n.id not in region or n.kind in ('join', 'iteration', 'loop'):
            continue
        for v in n.data.values():
            vals = v if isinstance(v, (list, tuple)) else [v]
            for t in vals:
                if not isinstance(t, T):
                    continue
                for x in walk(t):
                    if isinstance(x, Sub) and isinstance(strip(x.index), Const) and \
                            isinstance(strip(x.index).value, int) and from_prompt(x.base) \
                            and cid(x) not in seen_idx:
                        seen_idx.add(cid(x))
                        base_ids = alt_ids(x.base)

                        def nonempty(c2, p2, _ids=base_ids):
                            c0 = strip(c2)
                            if p2 and alt_ids(c0) == _ids:
                                return True
                            return p2 and isinstance(c0, Cmp) and c0.op in ('>', '>=', '!=') \
                                and is_call(strip(c0.left), 'len') and \
                                alt_ids(strip(c0.left).args[0]) == _ids
                        ctx.ob('R16.2', 'the reply is indexed only when it is non-empty',
                               established(b, n.id, nonempty, start=r.arg_iteration), node=n,
                               message='%s takes a character of the reply by index: an empty '
                                       'reply (Enter alone, a legitimate "no") raises '
                                       'IndexError, trash-put aborts and the remaining '
                                       'arguments are not handled' % short(x, 60))
    for e in sorted(set(exempted)):
        ctx.note('exempt: ' + e)
    # ---- R16.3
    log_calls = []
    for n in b.nodes('call'):
        if n.id not in region:
            continue
        for k, v in n.data['args'].items():
            for a in flat(v):
                if isinstance(a, Obj) and 'level' in a.fields and \
                        isinstance(strip(a.fields['level']), EnumVal) and \
                        strip(a.fields['level']).name == 'WARNING' and \
                        r.mentions_arg(a.fields.get('messages', NONE)):
                    log_calls.append(n.id)
    for fr in fail_rets:
        ctx.ob('R16.3', 'a Failure is preceded by a WARNING naming the argument',
               bool(log_calls) and cut_c(b, r.arg_iteration, fr.id, log_calls), node=fr,
               message='Failure is returned without a WARNING-level diagnostic that names the '
                       'argument')
    # ---- R16.4
    bad = []
    for n in b.nodes('store'):
        if n.id not in region:
            continue
        for o in flat(n.data['obj']):
            if isinstance(o, Obj) and o.site is not None and o.site not in region and \
                    o.site in b.live:
                bad.append((n, '%s.%s' % (o.cls.name, n.data['name'])))
    for n in b.nodes('store-item'):
        if n.id not in region:
            continue
        for o in flat(n.data['base']):
            if isinstance(o, (DictObj, ListObj)) and o.site is not None and \
                    o.site not in region and o.site in b.live:
                bad.append((n, 'a dict/list created before the loop (%s)' % (n.src or '')[:60]))
    for n in b.nodes('append'):
        if n.id in region and n.data['list'].site not in region and \
                not n.data.get('comprehension') and \
                n.data['list'].site in b.live and cid(n.data['list']) not in flist_ids:
            bad.append((n, 'list created before the loop'))
    ctx.ob('R16.4', 'no state is carried from one argument to the next', not bad,
           node=bad[0][0] if bad else loop,
           message='the iteration for one argument writes %s, which outlives it: the outcome '
                   'of an argument can depend on the arguments before it'
                   % (bad[0][1] if bad else ''))
    for n, what in bad[1:]:
        ctx.ob('R16.4', 'no state is carried from one argument to the next', False, node=n,
               message='the iteration writes %s' % what)
