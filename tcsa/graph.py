"""Inlined control-flow / effect graph with dominators and cut queries."""


class Node(object):
    __slots__ = ('id', 'kind', 'file', 'line', 'func', 'stack', 'data', 'src')

    def __init__(self, id, kind, file, line, func, stack, data, src=None):
        self.id = id
        self.kind = kind
        self.file = file
        self.line = line
        self.func = func      # qualname of the function whose code this is
        self.stack = stack    # tuple of (func qualname, file, call line) from entry
        self.data = data
        self.src = src

    def loc(self):
        return '%s:%s' % (self.file, self.line)

    def __repr__(self):
        return '<n%d %s %s %s>' % (self.id, self.kind, self.loc(), self.func)

    def path(self):
        """Path through the call graph: entry -> ... -> this node."""
        out = []
        for fn, f, l in self.stack:
            out.append('%s (%s:%s)' % (fn, f, l))
        out.append('%s (%s)' % (self.func, self.loc()))
        return out


class Graph(object):
    def __init__(self):
        self.nodes = []
        self.succ = []     # id -> list of (target, label)
        self.pred = []
        self.entry = None
        self.exit = None       # normal exit of the entry function
        self.escape = None     # exceptional exit (uncaught)
        self._idom = None
        self._ipdom = None
        self._rpo = None

    def add(self, kind, file, line, func, stack, data=None, src=None):
        n = Node(len(self.nodes), kind, file, line, func, stack, data or {}, src)
        self.nodes.append(n)
        self.succ.append([])
        self.pred.append([])
        self._idom = None
        return n.id

    def edge(self, a, b, label=None):
        if a is None or b is None:
            return
        for t, l in self.succ[a]:
            if t == b and l == label:
                return
        self.succ[a].append((b, label))
        self.pred[b].append((a, label))
        self._idom = None
        self._ipdom = None

    def n(self, i):
        return self.nodes[i]

    def of_kind(self, *kinds):
        return [n for n in self.nodes if n.kind in kinds]

    # ------------------------------------------------------------ reachability
    def reachable_from(self, start, blocked=(), labels=None, forward=True):
        blocked = set(blocked)
        adj = self.succ if forward else self.pred
        seen = set()
        if isinstance(start, int):
            start = [start]
        stack = [s for s in start if s not in blocked]
        while stack:
            x = stack.pop()
            if x in seen:
                continue
            seen.add(x)
            for t, l in adj[x]:
                if t in blocked or t in seen:
                    continue
                if labels is not None and not labels(l):
                    continue
                stack.append(t)
        return seen

    def live(self):
        if getattr(self, '_live', None) is None or self._live[0] != len(self.nodes):
            self._live = (len(self.nodes), self.reachable_from(self.entry))
        return self._live[1]

    def reaches(self, a, b, blocked=()):
        return b in self.reachable_from(a, blocked)

    def cut(self, src, dst, cutset):
        """True when every path src -> dst passes through a node of cutset."""
        cutset = set(cutset)
        if src in cutset or dst in cutset:
            return True
        return dst not in self.reachable_from(src, blocked=cutset)

    def some_path(self, src, dst, blocked=()):
        """A shortest path (list of node ids) or None."""
        blocked = set(blocked)
        if src in blocked:
            return None
        prev = {src: None}
        queue = [src]
        i = 0
        while i < len(queue):
            x = queue[i]
            i += 1
            if x == dst:
                out = []
                while x is not None:
                    out.append(x)
                    x = prev[x]
                return out[::-1]
            for t, l in self.succ[x]:
                if t not in prev and t not in blocked:
                    prev[t] = x
                    queue.append(t)
        return None

    # --------------------------------------------------------------- dominators
    def _compute_dom(self, root, succ, pred):
        order = []
        seen = set()
        stack = [(root, iter([t for t, _ in succ[root]]))]
        seen.add(root)
        while stack:
            x, it = stack[-1]
            adv = False
            for t in it:
                if t not in seen:
                    seen.add(t)
                    stack.append((t, iter([u for u, _ in succ[t]])))
                    adv = True
                    break
            if not adv:
                order.append(x)
                stack.pop()
        rpo = order[::-1]
        num = {x: i for i, x in enumerate(rpo)}
        idom = {root: root}
        changed = True
        while changed:
            changed = False
            for x in rpo[1:]:
                new = None
                for p, _ in pred[x]:
                    if p in idom:
                        if new is None:
                            new = p
                        else:
                            a, b = p, new
                            while a != b:
                                while num[a] > num[b]:
                                    a = idom[a]
                                while num[b] > num[a]:
                                    b = idom[b]
                            new = a
                if new is not None and idom.get(x) != new:
                    idom[x] = new
                    changed = True
        return idom

    def idom(self):
        if self._idom is None:
            self._idom = self._compute_dom(self.entry, self.succ, self.pred)
        return self._idom

    def dominates(self, a, b):
        """a dominates b (every path entry -> b passes a).  Unreachable b: True."""
        idom = self.idom()
        if b not in idom:
            return True
        x = b
        while True:
            if x == a:
                return True
            p = idom[x]
            if p == x:
                return False
            x = p

    def dominators(self, b):
        idom = self.idom()
        out = []
        if b not in idom:
            return out
        x = b
        while True:
            out.append(x)
            p = idom[x]
            if p == x:
                break
            x = p
        return out

    def assumes_dominating(self, b):
        """[(node, cond term, polarity)] of assume nodes dominating b."""
        out = []
        for d in self.dominators(b):
            n = self.nodes[d]
            if n.kind == 'assume' and d != b:
                out.append(n)
        return out
