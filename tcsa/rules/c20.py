"""C20 -- all commands read a trash directory the same way."""
from .common import *  # noqa
from .readroles import *  # noqa

EXPLANATION = (
    'Agreement of the sibling readers, by provenance: (R20.1) every original location that '
    'list prints, rm matches and restore scopes/restores originates at the decode call of '
    'one and the same Path parser function, every date that list prints, restore sorts '
    'by/prints and empty compares at the strptime of one DeletionDate parser; (R20.2) all '
    'three compute join(V, unquote(Path)); (R20.3) per kind of trash directory (home via '
    'XDG_DATA_HOME, home via HOME, $topdir/.Trash/$uid, $topdir/.Trash-$uid, --trash-dir) '
    'the base V is the same class of term in the scanner (list/rm) and in restore\'s '
    'lister; (R20.4) first-line semantics and formats are shared (one parser).  Does not '
    'decide equality of printed values for every .trashinfo content beyond "same '
    'functions, same constants, same base".')
ASSUMPTIONS = ['os.path.join keeps an absolute second argument (so only V matters for '
               'relative Paths)']
MINIMUM = {'R20.1': 6, 'R20.2': 3, 'R20.3': 8, 'R20.4': 4, 'R20.5': 2}


# rules of sibling properties that are necessary conditions of this one too
# (evaluated by the sibling module on the same graphs, reported under this property)
ALSO = {'C12': {'R12.2': 'trash-rm matches the very path trash-list prints'},
 'C19': {'R19.4': 'the date of one entry is not taken for the next (all readers parse per '
                  'entry)'}}

def dir_kind(D):
    kinds = set()
    for d in flat(D):
        d0 = strip(d.args[0]) if is_call(d, 'os.path.normpath') else d
        txt = []
        for x in walk(d0):
            if isinstance(x, Fmt):
                txt.append(x.template)
            elif isinstance(x, Const) and isinstance(x.value, str):
                txt.append(x.value)
        t = ' '.join(txt)
        if 'XDG_DATA_HOME' in t:
            kinds.add('home(XDG_DATA_HOME)')
        elif '.local/share/Trash' in t:
            kinds.add('home(HOME)')
        elif '.Trash-' in t:
            kinds.add('$topdir/.Trash-$uid')
        elif '.Trash' in t:
            kinds.add('$topdir/.Trash/$uid')
        elif contains(d0, lambda x: isinstance(x, MCall) and x.name == 'parse_args'):
            kinds.add('--trash-dir')
        else:
            kinds.add('other:' + short(d0, 40))
    return '|'.join(sorted(kinds))


def base_class(V, D):
    """How the base V relates to the trash directory D."""
    out = set()
    dparts = set()
    for d in flat(D):
        d0 = strip(d.args[0]) if is_call(d, 'os.path.normpath') else d
        jp = join_parts(d0)
        if jp:
            dparts |= alt_ids(jp[0])
        dparts_full = alt_ids(d0)
    for v in flat(V):
        if is_const(v, '/'):
            out.add("constant '/'")
        elif cid(v) in dparts:
            out.add('$topdir (first component of the directory)')
        elif contains(v, lambda x: isinstance(x, Call) and x.fn == 'os.path.abspath') or \
                isinstance(v, LoopVar) or contains(v, lambda x: isinstance(x, LoopVar)):
            out.add('volume_of(directory)')
        else:
            out.add('other:' + short(v, 40))
    return ' | '.join(sorted(out))


def content_shape(t):
    """Canonical text of the chain open(<path>, mode...).read()... with the path
    abstracted away."""
    t = strip(t)
    if isinstance(t, MCall):
        return '%s.%s(%s)' % (content_shape(t.recv), t.name, ', '.join(
            [short(a, 30) for a in t.args] + ['%s=%s' % (k, short(v, 30)) for k, v in t.kwargs]))
    if isinstance(t, Call) and t.fn in ('open', 'io.open', 'codecs.open'):
        return '%s(<path>%s)' % (t.fn, ''.join(', ' + short(a, 30) for a in t.args[1:]) +
                                 ''.join(', %s=%s' % (k, short(v, 30)) for k, v in t.kwargs))
    if isinstance(t, Call):
        return '%s(%s)' % (t.fn, ', '.join(content_shape(a) for a in t.args))
    return short(t, 40)


def check(ctx):
    loc_funcs = {}
    date_funcs = {}
    bases = {}     # kind -> {cmd: set(base class)}
    for cmd in ('list', 'rm', 'restore'):
        b = ctx.graph(cmd)
        uses = location_uses(ctx, cmd)
        ctx.require(uses, 'C20: %s uses no original location (anchor vanished)' % cmd)
        for what, node, term in uses:
            for u in unquote_calls(term):
                f = b.g.n(u.node).func if u.node is not None else '?'
                loc_funcs.setdefault(f, set()).add('%s %s' % (cmd, what))
            ljs = [j for a in flat(term) for j in location_joins(a)]
            ctx.ob('R20.2', '%s %s is join(V, unquote(Path))' % (cmd, what), bool(ljs),
                   node=node, message='%s: the %s is %s, not join(base, decoded Path)'
                                      % (cmd, what, short(term, 100)))
            for V, P, j in ljs:
                exact = all(is_call(strip(a), *UNQUOTERS) for a in flat(P))
                ctx.ob('R20.2', '%s %s joins the parser\'s value unchanged' % (cmd, what), exact,
                       node=node,
                       message='%s: the %s transforms the decoded Path (%s) before joining it '
                               'to the base; the sibling readers do not'
                               % (cmd, what, short(P, 100)))
                for o in [y for y in walk(P) if isinstance(y, Call) and y.fn in ('open', 'io.open', 'codecs.open')]:
                    for ia in flat(o.args[0]):
                        D = info_entry(ia)
                        if D is not None:
                            bases.setdefault(dir_kind(D), {}).setdefault(cmd, set()).add(
                                base_class(V, D))
    # the decode call is configured identically for every reader
    kwsets = {}
    for cmd in ('list', 'rm', 'restore'):
        for what, node, term in location_uses(ctx, cmd):
            for u in unquote_calls(term):
                key = (u.fn, tuple((k, short(v, 30)) for k, v in u.kwargs), len(u.args))
                kwsets.setdefault(key, set()).add(cmd)
    ctx.ob('R20.2', 'every reader decodes the Path with the same function and options',
           len(kwsets) == 1, construct='Path decoding', text=str(sorted(map(str, kwsets))),
           message='the Path is decoded differently: %s (e.g. errors=... in one reader only: '
                   'bytes that are not UTF-8 yield different names)'
                   % {str(k): sorted(v) for k, v in kwsets.items()})
    for cmd in ('list', 'restore', 'empty'):
        b = ctx.graph(cmd)
        for what, node, term in date_uses(ctx, cmd):
            for sp in strptime_calls(term):
                if contains(sp.args[0], lambda x: is_const(x, 'TRASH_DATE')):
                    continue
                f = b.g.n(sp.node).func if sp.node is not None else '?'
                date_funcs.setdefault(f, set()).add('%s %s' % (cmd, what))
    # R20.4: every reader obtains the text of a .trashinfo the same way
    shapes = {}
    for cmd in ('list', 'rm', 'restore', 'empty'):
        b = ctx.graph(cmd)
        for n in b.nodes('mcall'):
            if n.data['name'] != 'split' or not n.data['args'] or \
                    not is_const(strip(n.data['args'][0]), '\n'):
                continue
            for a in flat(n.data['recv']):
                if not contains(a, lambda x: isinstance(x, Call) and x.fn in ('open', 'io.open')):
                    continue
                shapes.setdefault(content_shape(a), set()).add(cmd)
    ctx.ob('R20.4', 'all readers obtain the content of a .trashinfo the same way (same open '
                    'mode, same decoding, same newline handling)', len(shapes) == 1,
           construct='content acquisition', text='; '.join(sorted(shapes)),
           message='the text handed to the parsers is produced differently: %s -- e.g. a '
                   'binary read plus decode() keeps "\\r" that the text-mode readers '
                   'translate away' % {k: sorted(v) for k, v in shapes.items()})
    for k, v in shapes.items():
        for cmd in sorted(v):
            ctx.ob('R20.4', '%s reads through %s' % (cmd, k), True, construct=k, text=cmd)
    # the value of the first DeletionDate line is kept by the same code in all readers
    keepers = {}
    for cmd in ('list', 'restore', 'empty'):
        b = ctx.graph(cmd)
        for n in b.nodes('store'):
            v = n.data.get('value')
            if v is None:
                continue
            fl = flat(v)
            direct = [a for a in fl if is_call(a, *STRPTIME) and not contains(
                a, lambda x: is_const(x, 'TRASH_DATE'))]
            if direct and all(is_call(a, *STRPTIME) or isinstance(a, Const) for a in fl):
                keepers.setdefault(cmd, set()).add(n.func)
    allk = set()
    for v in keepers.values():
        allk |= v
    # (no collector object at all -- the parsers return the value -- is agreement too;
    # that at most one line is ever decoded per file is R20.5)
    from .c03 import first_match_rules
    before = len(ctx.findings)
    first_match_rules(ctx, 'R20.5')
    first_wins = len(ctx.findings) == before
    # which collector keeps the value only matters when a reader may decode more than
    # one DeletionDate line of a file (R20.5 failed): then "first kept" and "last kept"
    # collectors disagree
    same_keeper = first_wins or not keepers or \
        (all(v == allk for v in keepers.values()) and len(keepers) >= 2)
    ctx.ob('R20.1', 'the parsed date is kept the same way in list, restore and empty (at most '
                    'one line is ever decoded, or the same collector code is used)',
           same_keeper, construct='DeletionDate collector', text=str(sorted(allk)),
           message='the readers keep the parsed DeletionDate through different code: %s -- '
                   'with duplicate DeletionDate lines they disagree on which one counts'
                   % {k: sorted(v) for k, v in keepers.items()})
    ctx.ob('R20.1', 'one Path parser feeds every use of an original location',
           len(loc_funcs) == 1, construct='parse_trashinfo', text='Path parsers',
           message='original locations are decoded in %d different functions: %s'
                   % (len(loc_funcs), {k: sorted(v) for k, v in loc_funcs.items()}))
    ctx.ob('R20.1', 'one DeletionDate parser feeds every use of a date',
           len(date_funcs) == 1, construct='parse_trashinfo', text='DeletionDate parsers',
           message='deletion dates are parsed in %d different functions: %s'
                   % (len(date_funcs), {k: sorted(v) for k, v in date_funcs.items()}))
    for f, who in list(loc_funcs.items()) + list(date_funcs.items()):
        for w in sorted(who):
            ctx.ob('R20.1', '%s goes through %s' % (w, f), True, construct=f, text=w)
    for kind in sorted(bases):
        per = bases[kind]
        classes = set()
        for cmd, cl in per.items():
            classes |= cl
        agree = len(classes) == 1
        ctx.ob('R20.3', 'same base for relative Paths in %s for %s' % (kind, sorted(per)),
               agree, construct='trash directory kind %s' % kind,
               text='; '.join('%s: %s' % (c, ' / '.join(sorted(per[c]))) for c in sorted(per)),
               message='a relative Path in %s is resolved against different bases: %s'
                       % (kind, {c: sorted(per[c]) for c in sorted(per)}),
               sample={c: sorted(per[c]) for c in per})
        for cmd in per:
            ctx.ob('R20.3', '%s reads %s' % (cmd, kind), True,
                   construct=kind, text=cmd)
