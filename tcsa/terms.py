"""Symbolic data-flow terms.

Immutable terms compare structurally; heap objects (Obj, ListObj, DictObj,
GenObj) compare by identity.  A Phi keeps, per alternative, the node at which
that alternative was produced (a return site, an object construction site), so
that rules can relate a value to the conditions under which it was produced
without path-sensitive exploration.
"""

PHI_LIMIT = 64


class T(object):
    __slots__ = ()
    _fields = ()

    def _key(self):
        return tuple(getattr(self, f) for f in self._fields)

    def __eq__(self, other):
        return type(self) is type(other) and self._key() == other._key()

    def __ne__(self, other):
        return not self.__eq__(other)

    def __hash__(self):
        try:
            return hash((type(self).__name__, self._key()))
        except TypeError:
            return id(self)

    def __repr__(self):
        return show(self)


def _mk(name, fields):
    def __init__(self, *args):
        assert len(args) == len(fields), (name, args)
        for f, a in zip(fields, args):
            object.__setattr__(self, f, a)
    cls = type(name, (T,), {'__slots__': tuple(fields), '_fields': tuple(fields),
                            '__init__': __init__})
    return cls


Const = _mk('Const', ['value'])
Param = _mk('Param', ['name'])                  # unknown input of the entry
ExtRef = _mk('ExtRef', ['qualname'])            # external function / module / attribute
ModRef = _mk('ModRef', ['modname'])
ClsRef = _mk('ClsRef', ['cls'])                 # repo class object
EnumVal = _mk('EnumVal', ['cls', 'name'])       # member of a repo Enum
FuncRef = _mk('FuncRef', ['func', 'closure'])   # repo function (closure: Env or None)
Bound = _mk('Bound', ['recv', 'func'])          # bound repo method
ExtBound = _mk('ExtBound', ['recv', 'name'])    # method of a non-repo value
Call = _mk('Call', ['fn', 'args', 'kwargs', 'node'])       # result of external call
MCall = _mk('MCall', ['recv', 'name', 'args', 'kwargs', 'node'])  # method on non-repo value
Attr = _mk('Attr', ['base', 'name'])
Sub = _mk('Sub', ['base', 'index'])
Slice = _mk('Slice', ['lower', 'upper', 'step'])
Bin = _mk('Bin', ['op', 'left', 'right'])
Un = _mk('Un', ['op', 'operand'])
Cmp = _mk('Cmp', ['op', 'left', 'right'])
BoolT = _mk('BoolT', ['op', 'values'])
Fmt = _mk('Fmt', ['template', 'args'])          # template: str with %s holes / {} normalised
TupleT = _mk('TupleT', ['items'])
Elem = _mk('Elem', ['container'])               # some element of an iterable
Index = _mk('Index', ['container'])             # enumerate() index of an iterable
LoopVar = _mk('LoopVar', ['name', 'loop'])      # loop-carried value
Unknown = _mk('Unknown', ['why'])
IfT = _mk('IfT', ['test', 'then', 'orelse'])    # conditional expression (value level)
ExcVal = _mk('ExcVal', ['classes', 'node'])     # caught exception bound by 'except ... as e'


class Phi(T):
    """Join of alternatives; alts is a tuple of (term, origin-node-or-None)."""
    __slots__ = ('alts',)
    _fields = ('alts',)

    def __init__(self, alts):
        object.__setattr__(self, 'alts', tuple(alts))

    def terms(self):
        return [a for a, _ in self.alts]


class Obj(T):
    """Instance of a repo class (identity semantics)."""
    __slots__ = ('cls', 'fields', 'site', 'frozen')

    def __init__(self, cls, site=None):
        object.__setattr__(self, 'cls', cls)
        object.__setattr__(self, 'fields', {})
        object.__setattr__(self, 'site', site)
        object.__setattr__(self, 'frozen', False)

    def _key(self):
        return (id(self),)

    def __eq__(self, other):
        return self is other

    def __hash__(self):
        return id(self)


class ListObj(T):
    """Mutable list.  ``open`` = may hold more/other elements than listed in a
    statically unknown number/order (built in a loop); items are then the
    distinct alternatives for an element."""
    __slots__ = ('items', 'open', 'site', 'kind')

    def __init__(self, items=None, open=False, site=None, kind='list'):
        object.__setattr__(self, 'items', list(items or []))
        object.__setattr__(self, 'open', open)
        object.__setattr__(self, 'site', site)
        object.__setattr__(self, 'kind', kind)

    def _key(self):
        return (id(self),)

    def __eq__(self, other):
        return self is other

    def __hash__(self):
        return id(self)


class DictObj(T):
    __slots__ = ('entries', 'site')

    def __init__(self, entries=None, site=None):
        object.__setattr__(self, 'entries', list(entries or []))  # [(keyterm, valterm)]
        object.__setattr__(self, 'site', site)

    def _key(self):
        return (id(self),)

    def __eq__(self, other):
        return self is other

    def __hash__(self):
        return id(self)


class GenObj(T):
    """A not-yet-iterated generator: the frame prepared for its body."""
    __slots__ = ('func', 'frame', 'site', 'consumed')

    def __init__(self, func, frame, site=None):
        object.__setattr__(self, 'func', func)
        object.__setattr__(self, 'frame', frame)
        object.__setattr__(self, 'site', site)
        object.__setattr__(self, 'consumed', 0)

    def _key(self):
        return (id(self),)

    def __eq__(self, other):
        return self is other

    def __hash__(self):
        return id(self)


class LambdaRef(T):
    __slots__ = ('node', 'frame', 'func')

    def __init__(self, node, frame, func):
        object.__setattr__(self, 'node', node)
        object.__setattr__(self, 'frame', frame)
        object.__setattr__(self, 'func', func)

    def _key(self):
        return (id(self.node), id(self.frame))

    def __eq__(self, other):
        return type(other) is LambdaRef and self._key() == other._key()

    def __hash__(self):
        return hash(self._key())


TOP = Unknown('top')
NONE = Const(None)
TRUE = Const(True)
FALSE = Const(False)


def join(*vals, **kw):
    """Phi of the given (term, origin) pairs or bare terms."""
    alts = []
    seen = set()

    def add(t, o):
        if isinstance(t, Phi):
            for a, ao in t.alts:
                add(a, ao if ao is not None else o)
            return
        k = (t, o)
        try:
            if k in seen:
                return
            seen.add(k)
        except TypeError:
            pass
        alts.append((t, o))

    for v in vals:
        if isinstance(v, tuple) and len(v) == 2 and isinstance(v[0], T) and \
                not isinstance(v[1], T):
            add(v[0], v[1])
        else:
            add(v, None)
    if not alts:
        return Unknown('empty-join')
    # drop exact duplicates differing only by origin None
    if len(alts) == 1:
        t, o = alts[0]
        if o is None:
            return t
        return Phi(alts)
    terms = set()
    uniq = True
    for t, o in alts:
        terms.add(t)
    if len(terms) == 1 and all(o is None for _, o in alts):
        return alts[0][0]
    if len(alts) > PHI_LIMIT:
        # keep heap objects / callables (needed for dispatch); widen the rest
        heap = [(t, o) for t, o in alts
                if isinstance(t, (Obj, ListObj, DictObj, GenObj, FuncRef, Bound,
                                  ClsRef, LambdaRef, EnumVal, Const))]
        rest = [(t, o) for t, o in alts if (t, o) not in heap]
        keep = heap + rest[:max(0, PHI_LIMIT - len(heap))]
        if len(keep) < len(alts):
            keep.append((Unknown('widened'), None))
        alts = keep
    return Phi(alts)


def alts(t):
    """[(term, origin)] of a value (a non-Phi has one alternative)."""
    if isinstance(t, Phi):
        return list(t.alts)
    return [(t, None)]


def terms_of(t):
    return [a for a, _ in alts(t)]


def children(t):
    if isinstance(t, (Const, Param, ExtRef, ModRef, ClsRef, EnumVal, Unknown,
                      LoopVar, ExcVal)):
        return []
    if isinstance(t, Phi):
        return t.terms()
    if isinstance(t, Call):
        return list(t.args) + [v for _, v in t.kwargs]
    if isinstance(t, MCall):
        return [t.recv] + list(t.args) + [v for _, v in t.kwargs]
    if isinstance(t, (Attr,)):
        return [t.base]
    if isinstance(t, Sub):
        return [t.base, t.index]
    if isinstance(t, Slice):
        return [x for x in (t.lower, t.upper, t.step) if x is not None]
    if isinstance(t, Bin):
        return [t.left, t.right]
    if isinstance(t, Cmp):
        return [t.left, t.right]
    if isinstance(t, Un):
        return [t.operand]
    if isinstance(t, BoolT):
        return list(t.values)
    if isinstance(t, Fmt):
        return list(t.args)
    if isinstance(t, TupleT):
        return list(t.items)
    if isinstance(t, (Elem, Index)):
        return [t.container]
    if isinstance(t, IfT):
        return [t.test, t.then, t.orelse]
    if isinstance(t, Obj):
        return list(t.fields.values())
    if isinstance(t, ListObj):
        return list(t.items)
    if isinstance(t, DictObj):
        return [v for _, v in t.entries] + [k for k, _ in t.entries]
    if isinstance(t, Bound):
        return [t.recv]
    if isinstance(t, ExtBound):
        return [t.recv]
    return []


def walk(t, _seen=None):
    """All sub-terms (pre-order), cycle-safe."""
    seen = _seen if _seen is not None else set()
    stack = [t]
    while stack:
        x = stack.pop()
        k = id(x)
        if k in seen:
            continue
        seen.add(k)
        yield x
        stack.extend(children(x))


def contains(t, pred):
    for x in walk(t):
        if pred(x):
            return True
    return False


def find_calls(t, qualnames):
    if isinstance(qualnames, str):
        qualnames = (qualnames,)
    return [x for x in walk(t) if isinstance(x, Call) and x.fn in qualnames]


def is_const(t, *values):
    if not isinstance(t, Const):
        return False
    if not values:
        return True
    return any(t.value == v and type(t.value) is type(v) for v in values)


def const_value(t, default=None):
    return t.value if isinstance(t, Const) else default


def show(t, depth=0):
    if depth > 6:
        return '...'
    d = depth + 1
    if isinstance(t, Const):
        return repr(t.value)
    if isinstance(t, Param):
        return '$' + t.name
    if isinstance(t, ExtRef):
        return t.qualname
    if isinstance(t, ModRef):
        return 'module:' + t.modname
    if isinstance(t, ClsRef):
        return 'class:' + t.cls.qualname
    if isinstance(t, EnumVal):
        return '%s.%s' % (t.cls.name, t.name)
    if isinstance(t, FuncRef):
        return 'func:' + t.func.qualname
    if isinstance(t, LambdaRef):
        return 'lambda@%s:%s' % (t.func.file if t.func else '?', t.node.lineno)
    if isinstance(t, Bound):
        return '%s.%s' % (show(t.recv, d), t.func.name)
    if isinstance(t, ExtBound):
        return '%s.%s' % (show(t.recv, d), t.name)
    if isinstance(t, Call):
        a = [show(x, d) for x in t.args] + ['%s=%s' % (k, show(v, d)) for k, v in t.kwargs]
        return '%s(%s)' % (t.fn, ', '.join(a))
    if isinstance(t, MCall):
        a = [show(x, d) for x in t.args] + ['%s=%s' % (k, show(v, d)) for k, v in t.kwargs]
        return '%s.%s(%s)' % (show(t.recv, d), t.name, ', '.join(a))
    if isinstance(t, Attr):
        return '%s.%s' % (show(t.base, d), t.name)
    if isinstance(t, Sub):
        return '%s[%s]' % (show(t.base, d), show(t.index, d))
    if isinstance(t, Slice):
        return '%s:%s' % ('' if t.lower is None else show(t.lower, d),
                          '' if t.upper is None else show(t.upper, d))
    if isinstance(t, Bin):
        return '(%s %s %s)' % (show(t.left, d), t.op, show(t.right, d))
    if isinstance(t, Cmp):
        return '(%s %s %s)' % (show(t.left, d), t.op, show(t.right, d))
    if isinstance(t, Un):
        return '(%s %s)' % (t.op, show(t.operand, d))
    if isinstance(t, BoolT):
        return '(' + (' %s ' % t.op).join(show(v, d) for v in t.values) + ')'
    if isinstance(t, Fmt):
        return 'fmt(%r; %s)' % (t.template, ', '.join(show(a, d) for a in t.args))
    if isinstance(t, TupleT):
        return '(' + ', '.join(show(i, d) for i in t.items) + ',)'
    if isinstance(t, Elem):
        return 'elem(%s)' % show(t.container, d)
    if isinstance(t, Index):
        return 'index(%s)' % show(t.container, d)
    if isinstance(t, LoopVar):
        return 'loopvar(%s)' % t.name
    if isinstance(t, Unknown):
        return '?%s' % t.why
    if isinstance(t, IfT):
        return '(%s if %s else %s)' % (show(t.then, d), show(t.test, d), show(t.orelse, d))
    if isinstance(t, ExcVal):
        return 'exc(%s)' % '|'.join(t.classes)
    if isinstance(t, Phi):
        return 'phi{' + ' | '.join(show(a, d) for a in t.terms()) + '}'
    if isinstance(t, Obj):
        if depth > 2:
            return '<%s>' % t.cls.name
        return '<%s %s>' % (t.cls.name, ', '.join(
            '%s=%s' % (k, show(v, d + 1)) for k, v in sorted(t.fields.items())))
    if isinstance(t, ListObj):
        return '%s[%s%s]' % ('' if t.kind == 'list' else t.kind,
                             ', '.join(show(i, d) for i in t.items),
                             ', ...' if t.open else '')
    if isinstance(t, DictObj):
        return '{' + ', '.join('%s: %s' % (show(k, d), show(v, d)) for k, v in t.entries) + '}'
    if isinstance(t, GenObj):
        return 'gen:%s' % t.func.qualname
    return object.__repr__(t)


def strip_origins(t):
    """A value taken out of a collection: which producer made it is no longer tied to the
    path (all producers ran before), so the origins of its alternatives are dropped."""
    if isinstance(t, Phi):
        return join(*[(a, None) for a, o in t.alts])
    return t
