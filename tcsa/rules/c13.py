"""C13 -- trash-restore offers the right entries, restores exactly the chosen indices."""
from .common import *  # noqa
from .readroles import *  # noqa

EXPLANATION = (
    'On the trash-restore graph: (R13.1) validate-all-then-restore by data dependence and '
    'dominance: the acceptance test folds to "index in range(0, len(L))" with L the listed '
    'sequence, its failing branch raises; the MOVE and the subscript L[index] that selects '
    'entries are dominated by the normal exit of the validation loop, and validation and '
    'selection iterate the same index expansion (same generator method on the same '
    'object); (R13.2) the scope predicate tests startswith(path + separator), equality, or '
    'path == separator -- never a bare prefix; (R13.3) the sequence enumerated for '
    'printing (from 0, the index being the number printed), measured by len() and '
    'subscripted is one and the same materialised list for every --sort mode; (R13.4) an '
    'empty reply leaves before the restorer, a parse error is converted into exit(non-zero) '
    'with no effect after it; (R13.7) a range "a-b" of the reply iterates range(int(a), '
    'int(b) + 1) with a and b the first and second piece in the order typed (a reversed '
    'range selects nothing); (R13.8) what int() converts into an index is the piece of the reply as typed (at most strip()ped of blanks), never a rewritten piece.  Does not decide the reply grammar over all strings nor that '
    'sorted() yields the requested order.')
ASSUMPTIONS = ['int(), range(), sorted(), enumerate() behave as documented']
MINIMUM = {'R13.1': 4, 'R13.2': 2, 'R13.3': 3, 'R13.4': 2, 'R13.5': 1, 'R13.6': 1, 'R13.7': 1, 'R13.8': 2}






# rules of sibling properties that are necessary conditions of this one too
# (evaluated by the sibling module on the same graphs, reported under this property)
ALSO = {'C03': {'R03.1': ('the location offered is the decoded Path, decoded once', 'restore')},
 'C09': {'R09.3': ('the index restores the payload of that very entry', 'restore '),
         'R09.6': ('every *.trashinfo is offered (indices refer to the whole listing)',
                   'restore:')},
 'C19': {'R19.1': ('an unreadable .trashinfo does not keep the others from being offered',
                   'restore:'),
         'R19.2': 'the listing is sorted with a total key'}}

def check(ctx):
    b = ctx.graph('restore')
    g = b.g
    moves = mutating_effects(b, 'MOVE')
    ctx.require(moves, 'C13: no MOVE in restore graph')
    # ---- the listed sequence L: what the prompt's len() / printing consumes
    accept = []
    for n in b.nodes('assume'):
        c, pol = unwrap_not(n.data['cond'], n.data['pol'])
        if isinstance(c, Cmp) and c.op in ('in', 'not in') and \
                contains(c.right, lambda x: isinstance(x, Call) and x.fn == 'range'):
            eff = pol if c.op == 'in' else not pol
            accept.append((n, c, eff))
    if not accept:
        ctx.ob('R13.1', 'indexes are validated against range(0, len(L))', False, node=moves[0],
               message='no test "index in range(0, len(listed entries))" exists on the way to '
                       'the restore: out-of-range or negative indexes are not rejected up '
                       'front')
        return
    L_ids = None
    for n, c, eff in accept:
        rg = strip(c.right)
        ok = is_call(rg, 'range') and len(rg.args) == 2 and is_const(strip(rg.args[0]), 0) \
            and is_call(strip(rg.args[1]), 'len')
        if ok:
            L_ids = alt_ids(strip(rg.args[1]).args[0])
        if eff:
            continue
        ctx.ob('R13.1', 'acceptance test folds to index in range(0, len(L))', ok, node=n,
               message='indexes are accepted by %s' % short(c, 140))
        # the failing branch raises a (non-belief) error before anything else
        raises = [r for r in b.nodes('raise') if g.dominates(n.id, r.id) and
                  not r.data.get('belief')]
        if not raises:
            # the rejected index is handed on (first offending one, say) and raised
            # about later: no consistent way from the rejection to a restore that
            # avoids the raise
            later = [r.id for r in b.nodes('raise') if not r.data.get('belief') and
                     r.id in g.reachable_from([n.id])]
            if later and all(feasible_path(b, [n.id], m.id, blocked=later) is None
                             for m in moves):
                raises = later
        ctx.ob('R13.1', 'an out-of-range index raises', bool(raises), node=n,
               message='an index outside the list does not abort the whole selection')
    bad_nodes = [n for n, c, eff in accept if not eff]
    # validation loop(s): loops of the function that raises, dominating the failing branch
    vloops = []
    for n in bad_nodes:
        for d in g.dominators(n.id):
            dn = g.n(d)
            if dn.kind == 'loop' and dn.func == n.func and dn.data.get('exit') is not None:
                vloops.append(dn)
    vloops = list({v.id: v for v in vloops}.values())
    if not vloops:
        ctx.ob('R13.1', 'validation happens in a loop over all indexes', False, node=moves[0],
               message='no loop validates every index before restoring')
        return
    exits = [v.data['exit'] for v in vloops]
    for m in moves:
        ctx.ob('R13.1', 'every restore MOVE is dominated by the completed validation of all '
                        'indexes', any(dom_c(b, e, m.id) for e in exits), node=m,
               message='an entry can be restored before every index of the reply has been '
                       'validated (partial restore on an invalid reply)')
    lookups = [n for n in b.nodes('lookup') if 'list' in n.data and L_ids is not None and
               alt_ids(n.data['list']) <= L_ids]
    ctx.ob('R13.1', 'selected entries are L[index]', bool(lookups), node=moves[0],
           message='the entries to restore are not selected by subscripting the listed '
                   'sequence')
    for lk in lookups:
        ctx.ob('R13.1', 'selection happens after validation', any(dom_c(b, e, lk.id)
                                                                  for e in exits), node=lk,
               message='entries are selected before validation completed')
        def signature(lp):
            # what a loop iterates: a generator method of given objects, or an iterable
            if lp.data.get('kind') == 'generator':
                return ('gen', lp.data['gen'],
                        frozenset(alt_ids(lp.data['gen_args'].get('self', NONE))))
            if lp.data.get('kind') == 'for' and lp.data.get('iter') is not None:
                return ('iter', frozenset(alt_ids(lp.data['iter'])))
            return None
        sel = [g.n(d) for d in g.dominators(lk.id)
               if g.n(d).kind == 'loop' and g.n(d).func == lk.func]
        gens = [x for x in sel if x.data.get('kind') == 'generator']
        if gens:
            sel = gens[:1]          # the expansion is one generator: that is the loop
        s_sig = set(signature(x) for x in sel) - {None}
        v_sig = set(signature(v) for v in vloops) - {None}
        same_exp = bool(s_sig) and s_sig <= v_sig
        ctx.ob('R13.1', 'validation and selection iterate the same index expansion', same_exp,
               node=lk, message='the indexes used for selection are not the ones validated')
    # ---- R13.7 "a-b" expands to range(int(a), int(b) + 1): the bounds are the two pieces of
    # the reply in the order typed (a reversed range selects nothing)
    def from_prompt(t):
        return contains(t, lambda x: isinstance(x, Call) and x.fn in ('input', 'raw_input'))

    def piece(t):
        fl = flat(t)
        if len(fl) != 1:
            return 'ambiguous'
        x = fl[0]
        if is_call(x, 'int') and len(x.args) == 1:
            y = strip(x.args[0])
            if isinstance(y, Sub) and isinstance(strip(y.index), Const) and \
                    isinstance(strip(y.base), MCall) and strip(y.base).name in ('split',
                                                                                'rsplit'):
                return (cid(y.base), strip(y.index).value)
        return None
    seen_rg = set()
    for lp in b.nodes('loop'):
        it = lp.data.get('iter')
        it = strip(it) if it is not None else None
        if not (is_call(it, 'range') and len(it.args) == 2 and from_prompt(it)):
            continue
        if cid(it) in seen_rg:
            continue
        seen_rg.add(cid(it))
        lo, hi = it.args
        hi_s = strip(hi)
        if isinstance(hi_s, Bin) and hi_s.op == '+' and is_const(strip(hi_s.right), 1):
            hi = hi_s.left
        pl, ph = piece(lo), piece(hi)
        ok = 'ambiguous' not in (pl, ph) and (
            pl is None or ph is None or (pl[0] == ph[0] and (pl[1], ph[1]) == (0, 1)))
        ctx.ob('R13.7', 'a range of the reply runs from its first to its second number', ok,
               node=lp, message='the bounds of an "a-b" range are %s and %s: not the first and '
                                'the second number of the reply in the order typed (a reversed '
                                'range must select nothing)' % (short(lo, 60), short(hi, 60)))
    # ---- R13.3 one materialised sequence
    enums = [n for n in b.nodes('enumerate')]
    printed = []
    for o in b.nodes('output'):
        if not is_stdout(o.data['stream']):
            continue
        for h in [x for a in o.data['args'] for y in flat(a) if isinstance(y, Fmt)
                  for x in y.args]:
            for hh in flat(h):
                if isinstance(hh, Index):
                    printed.append((o, hh))
    ctx.ob('R13.3', 'the number printed is the enumerate() index of the listed sequence',
           bool(printed) and L_ids is not None and
           all(alt_ids(ix.container) == L_ids for o, ix in printed),
           node=printed[0][0] if printed else moves[0],
           message='the index printed next to an entry is not the position in the sequence '
                   'that len() and the subscript use')
    for e in enums:
        if L_ids is not None and alt_ids(e.data['source']) == L_ids:
            ctx.ob('R13.3', 'numbering starts at 0', is_const(strip(e.data['start']), 0),
                   node=e, message='entries are numbered from %s but indexed from 0'
                                   % short(e.data['start']))
    # every alternative of L is a materialised list
    for n, c, eff in accept[:1]:
        lst = strip(strip(c.right).args[1]).args[0] if L_ids is not None else None
        mats = [a for a in flat(lst)] if lst is not None else []
        ctx.ob('R13.3', 'the listed sequence is materialised for every --sort mode',
               bool(mats) and all(isinstance(a, ListObj) for a in mats), node=n,
               message='for some --sort mode the sequence is %s: it cannot be measured, '
                       'printed and indexed three times'
                       % [type(a).__name__ for a in mats if not isinstance(a, ListObj)])
    for n in b.nodes('type-error', 'arity-error'):
        ctx.ob('R13.3', 'no call that cannot succeed on the listing path', False, node=n,
               message='%s: %s' % (n.kind, n.data.get('what') or
                                   'call of %s does not fit its signature' % n.data.get('func')))
    # ---- R13.2 scope
    scope = [(w, n, t) for w, n, t in location_uses(ctx, 'restore') if w == 'scope test']
    ctx.require(scope, 'R13.2: scope test not found')
    seen = set()
    for w, n, recv in scope:
        c, pol = unwrap_not(n.data['cond'], n.data['pol'])
        for x in walk(c):
            if isinstance(x, MCall) and x.name == 'startswith' and has_unquote(x.recv):
                if cid(x) in seen:
                    continue
                seen.add(cid(x))
                arg = strip(x.args[0]) if x.args else None
                ok = False
                if isinstance(arg, Bin) and arg.op == '+':
                    sep = strip(arg.right)
                    ok = (isinstance(sep, ExtRef) and sep.qualname in ('os.sep', 'os.path.sep')) \
                        or is_const(sep, '/')
                if isinstance(arg, Fmt) and arg.template in ('%s/',):
                    ok = True
                ctx.ob('R13.2', 'scope test matches at a path-component boundary', ok, node=n,
                       message='entries are offered when their location merely starts with %s '
                               '(/a/foo also selects /a/foobar)' % short(arg, 80))
                # ... and it is applied to the location as recorded: byte-different
                # directories are different directories (no case / Unicode folding)
                folded = [a for a in flat(x.recv) if not (
                    is_call(a, *JOIN) and len(location_joins(a)) >= 1 and
                    same(location_joins(a)[0][2], a))]
                ctx.ob('R13.2', 'scope test is applied to the original location unchanged',
                       not folded, node=n,
                       message='the location compared with the requested directory is %s, '
                               'not the recorded one: entries of a different directory whose '
                               'name folds to the same string are offered too'
                               % (short(folded[0], 100) if folded else ''))
    # ---- R13.6 the requested directory is normpath(join(cwd, argument)): gluing a
    # separator to the cwd yields '//' for cwd '/', which POSIX normpath keeps, and no
    # location starts with '///'
    seen6 = set()
    for w, n, recv in scope:
        c, pol = unwrap_not(n.data['cond'], n.data['pol'])
        for x in walk(c):
            if isinstance(x, MCall) and x.name == 'startswith' and has_unquote(x.recv) and x.args:
                for y in walk(x.args[0]):
                    if is_call(y, 'os.path.normpath') and cid(y) not in seen6:
                        seen6.add(cid(y))
                        glued = [z for z in walk(y.args[0]) if isinstance(z, Bin) and
                                 z.op == '+' and ((isinstance(strip(z.right), ExtRef) and
                                                   strip(z.right).qualname in
                                                   ('os.sep', 'os.path.sep')) or
                                                  is_const(strip(z.right), '/'))]
                        ctx.ob('R13.6', 'the scope directory is normpath(join(cwd, argument)) '
                                        'without a glued separator', not glued, node=n,
                               message='the directory whose entries are offered is %s: run '
                                       'from "/" this is "//" (normpath keeps two leading '
                                       'slashes), which equals neither "/" nor any prefix of a '
                                       'location, so nothing is offered' % short(y, 120))
    # ---- R13.5 every piece of the reply is examined
    reply_calls = [n for n in b.nodes('ext') if n.data['fn'] in ('input', 'raw_input')]
    rids = set(cid(n.data['result']) for n in reply_calls)
    splits = {}
    for n in b.nodes('mcall'):
        if n.data['name'] == 'split' and contains(n.data['recv'], lambda x: cid(x) in rids):
            splits[cid(n.data['result'])] = n
    unpacked = {}
    for n in b.nodes('unpack'):
        for a in flat(n.data['value']):
            unpacked.setdefault(cid(a), []).append(n.data['arity'])
    iterated = set()
    for n in b.nodes('loop', 'iteration'):
        it = n.data.get('iter')
        v = n.data.get('value')
        if it is not None:
            for a in flat(it):
                if cid(a) in splits:
                    iterated.add(cid(a))
        if v is not None:
            for a in flat(v):
                if isinstance(a, Elem) and cid(strip(a.container)) in splits:
                    iterated.add(cid(strip(a.container)))
    indexed = {}
    for n in b.nodes():
        for key in ('value', 'args', 'cond'):
            t = n.data.get(key)
            ts = t if isinstance(t, list) else [t]
            for tt in ts:
                if not isinstance(tt, T):
                    continue
                for x in walk(tt):
                    if isinstance(x, Sub) and cid(x.base) in splits and \
                            isinstance(strip(x.index), Const):
                        indexed.setdefault(cid(x.base), set()).add(strip(x.index).value)
    for sid, n in splits.items():
        if sid in iterated and sid not in indexed:
            ctx.ob('R13.5', 'the pieces of %s are all iterated' % (n.src or 'split'), True,
                   node=n)
            continue
        if sid in indexed:
            ar = unpacked.get(sid, [])
            full = bool(ar) and all(set(range(a)) >= set(i for i in indexed[sid] if i >= 0)
                                    and not any(i < 0 for i in indexed[sid]) for a in ar)
            ctx.ob('R13.5', 'all pieces of a split reply part are examined (arity enforced by '
                            'unpacking, or every piece iterated)', full or sid in iterated,
                   node=n,
                   message='only the pieces %s of %s are looked at: what stands between them '
                           '(e.g. the middle of "0-7-1") is neither parsed nor range-checked, '
                           'so an invalid reply restores entries' % (
                               sorted(indexed[sid]), n.src))
    # ---- R13.8 the number an index stands for is int() of the piece as typed: int()
    # itself tolerates blanks around a number and nothing else, so "0 1" is invalid; a
    # piece rewritten before conversion (replace, translate, lstrip(chars) ...) makes some
    # invalid reply parse -- and restore -- instead of being refused
    def as_typed(t):
        t = strip(t)
        while isinstance(t, MCall) and t.name in ('strip', 'lstrip', 'rstrip') and (
                not t.args or all(isinstance(strip(a), Const) and
                                  (strip(a).value is None or
                                   (isinstance(strip(a).value, str) and
                                    strip(a).value.strip() == '')) for a in t.args)):
            t = strip(t.recv)
        if is_call(t, 'input', 'raw_input'):
            return True
        if isinstance(t, Elem):
            return as_typed_list(t.container)
        if isinstance(t, Sub):
            return as_typed_list(t.base)
        return False

    def as_typed_list(t):
        t = strip(t)
        return isinstance(t, MCall) and t.name in ('split', 'rsplit') and \
            all(as_typed(a) for a in flat(t.recv))
    seen8 = set()
    for n in b.nodes('ext'):
        if n.data['fn'] != 'int' or not n.data['args'] or not from_prompt(n.data['args'][0]):
            continue
        for a in flat(n.data['args'][0]):
            if cid(a) in seen8:
                continue
            seen8.add(cid(a))
            ctx.ob('R13.8', 'an index is int() of the reply piece as typed', as_typed(a),
                   node=n,
                   message='the text converted into an index is %s, not the piece of the '
                           'reply as typed: a reply that is not a number or a range of '
                           'numbers (e.g. "0 1") is rewritten into one and restores '
                           'entries instead of being refused' % short(a, 140))
    # ---- R13.4
    inputs = [n for n in b.nodes('ext') if n.data['fn'] in ('input', 'raw_input')]
    ctx.require(inputs, 'R13.4: no prompt')
    reply_ids = set(cid(n.data['result']) for n in inputs)
    empties = [n.id for n in assume_nodes(
        b, lambda c, pol, n: isinstance(c, Cmp) and c.op == '==' and not pol and
        is_const(strip(c.right), '') and alt_ids(c.left) <= reply_ids)]
    empties += [n.id for n in assume_nodes(
        b, lambda c, pol, n: pol and alt_ids(c) <= reply_ids)]
    for m in moves:
        ctx.ob('R13.4', 'an empty reply never reaches the restorer',
               cut_c(b, g.entry, m.id, empties), node=m,
               message='an empty reply is not short-circuited before the restorer')
    parse_raises = [r for r in b.nodes('raise') if not r.data.get('belief') and
                    any(g.dominates(i.id, r.id) for i in inputs) and
                    not any(g.dominates(m.id, r.id) for m in moves) and
                    not r.data.get('reraise')]
    muts = mutating_effects(b)
    for rz in parse_raises:
        caught = [t for c, h, t, s in rz.data.get('raises', []) if h == 'caught']
        esc = [c for c, h, t, s in rz.data.get('raises', []) if h == 'escape']
        reach = g.reachable_from(caught) if caught else set()
        exits_ = [x for x in b.nodes('ext') if x.data['fn'] == 'sys.exit' and x.id in reach
                  and x.data['args'] and isinstance(strip(x.data['args'][0]), Const) and
                  strip(x.data['args'][0]).value not in (0, None)]
        hit = reachable_c(b, caught, [e.id for e in muts]) if caught else []
        touched = [e for e in muts if e.id in hit]
        ctx.ob('R13.4', 'an invalid reply is converted into exit(non-zero) without effects',
               bool(caught) and not esc and bool(exits_) and not touched, node=rz,
               message='an invalid reply %s' % (
                   'escapes as a traceback' if esc or not caught else
                   'still reaches %s' % touched[0].loc() if touched else
                   'does not end in a non-zero exit'))
