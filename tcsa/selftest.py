"""Both-ways self-test of the checker (DESIGN §7).

Fire matrix: each mutant is a small edit of a scratch copy of the tree under
analysis that breaks one property; the named rule must report it.  Silent
matrix: behaviour-preserving edits; the verdict must not change.  Scratch
copies live under ${TMPDIR:-/var/tmp} and are removed within the run.
A self-test failure means the *checker* is broken: ANALYSIS-ERROR, exit 2.
"""
import contextlib
import importlib
import io
import json
import multiprocessing
import os
import shutil
import sys
import tempfile
import time

from . import report
from .model import ENTRY_SCRIPTS

VERIF = report.VERIF


def load_matrix():
    sys.path.insert(0, os.path.join(VERIF, 'selftest'))
    import matrix
    importlib.reload(matrix)
    return list(matrix.MUTANTS) + load_seeds() + load_refactors()


def load_refactors():
    """The independently written behaviour-preserving refactorings of /verif/refactors
    as additional silent entries: no check may change its verdict on any of them."""
    out = []
    rd = os.path.join(VERIF, 'refactors')
    if not os.path.isdir(rd):
        return out
    props = ['C%02d' % i for i in range(1, 21)]
    for name in sorted(os.listdir(rd)):
        pp = os.path.join(rd, name, 'patch.diff')
        if not os.path.exists(pp):
            continue
        what = ''
        mp = os.path.join(rd, name, 'meta.json')
        if os.path.exists(mp):
            with open(mp) as fh:
                what = json.load(fh).get('change', '')
        out.append({'id': 'refactor-' + name, 'kind': 'silent', 'props': props, 'fire': {},
                    'edits': [], 'patch': pp, 'what': what})
    return out


def load_seeds():
    """The independently seeded changes of /verif/seeded as additional fire entries:
    a seed recorded as detected by property P must keep making P's check fire."""
    out = []
    sd = os.path.join(VERIF, 'seeded')
    if not os.path.isdir(sd):
        return out
    for name in sorted(os.listdir(sd)):
        mp = os.path.join(sd, name, 'meta.json')
        pp = os.path.join(sd, name, 'patch.diff')
        if not (os.path.exists(mp) and os.path.exists(pp)):
            continue
        with open(mp) as fh:
            meta = json.load(fh)
        fire = {p: list(r) for p, r in meta.get('detected_by', {}).items()}
        if not fire:
            continue
        out.append({'id': 'seed-' + name, 'kind': 'fire', 'props': sorted(fire), 'fire': fire,
                    'edits': [], 'patch': pp,
                    'what': '%s (%s)' % (meta.get('change', ''), meta.get('needs_to_manifest', ''))})
    return out


def make_scratch(repo, edits, patch=None):
    """Copy the analysed sources, apply edits [(relpath, old, new)].
    Returns (dir, None) or (None, reason) when an edit no longer applies."""
    base = os.environ.get('TMPDIR') or '/var/tmp'
    d = tempfile.mkdtemp(prefix='tcsa-selftest-', dir=base)
    shutil.copytree(os.path.join(repo, 'trashcli'), os.path.join(d, 'trashcli'),
                    ignore=shutil.ignore_patterns('__pycache__', '*.pyc'))
    for s in ENTRY_SCRIPTS.values():
        shutil.copy(os.path.join(repo, s), os.path.join(d, s))
    if patch:
        import subprocess
        r = subprocess.run(['patch', '-p1', '-s', '-f', '-d', d, '-i', patch],
                           capture_output=True, text=True)
        if r.returncode:
            shutil.rmtree(d, ignore_errors=True)
            return None, 'patch does not apply: %s' % (r.stdout + r.stderr).strip()[:200]
        for root, _, files in os.walk(d):
            for f in files:
                if f.endswith(('.orig', '.rej')):
                    os.remove(os.path.join(root, f))
    for rel, old, new in edits:
        p = os.path.join(d, rel)
        if not os.path.exists(p):
            shutil.rmtree(d, ignore_errors=True)
            return None, 'file %s vanished' % rel
        with open(p) as fh:
            src = fh.read()
        if src.count(old) != 1:
            shutil.rmtree(d, ignore_errors=True)
            return None, 'anchor text of edit in %s occurs %d times' % (rel, src.count(old))
        with open(p, 'w') as fh:
            fh.write(src.replace(old, new))
    return d, None


def run_on(prop, repo):
    """(exit code, set of (rule, construct), output) of prop's check on repo."""
    mod = importlib.import_module('tcsa.rules.%s' % prop.lower())
    ctx_findings = []
    buf = io.StringIO()
    evd = tempfile.mkdtemp(prefix='tcsa-ev-', dir=os.environ.get('TMPDIR') or '/var/tmp')
    try:
        with contextlib.redirect_stdout(buf):
            code = report.run_check(prop, mod, repo, 'quick', evidence_dir=evd,
                                    replay_dir=evd, quiet=True)
        rules = set()
        evp = os.path.join(evd, '%s.json' % prop)
        if os.path.exists(evp):
            with open(evp) as fh:
                ev = json.load(fh)
            for f in ev['coverage'].get('findings', []):
                rules.add((f['rule'], f['construct']))
    finally:
        shutil.rmtree(evd, ignore_errors=True)
    return code, rules, buf.getvalue()


def _one(args):
    m, repo, only = args
    d, why = make_scratch(repo, m['edits'], m.get('patch'))
    if d is None:
        return (m['id'], 'stale', why)
    try:
        for rel, _, _ in m['edits']:
            try:
                with open(os.path.join(d, rel)) as fh:
                    compile(fh.read(), rel, 'exec', dont_inherit=True)
            except SyntaxError as e:
                return (m['id'], 'broken', 'mutant does not compile: %s' % e)
        res = {}
        for prop in only:
            code, rules, out = run_on(prop, d)
            res[prop] = (code, sorted(rules), out[-1500:])
        return (m['id'], 'ran', res)
    finally:
        shutil.rmtree(d, ignore_errors=True)


def run_for(prop, repo, jobs=16, verbose=True):
    """Run the matrix entries concerning prop against scratch copies of repo."""
    t0 = time.time()
    matrix = [m for m in load_matrix() if prop in m['props']]
    if not matrix:
        print('selftest %s: no matrix entries' % prop)
        return 0
    base = {}
    props = [prop]
    for p in props:
        code, rules, out = run_on(p, repo)
        base[p] = (code, rules)
    work = [(m, repo, props) for m in matrix]
    with multiprocessing.Pool(min(jobs, len(work))) as pool:
        results = pool.map(_one, work)
    byid = {m['id']: m for m in matrix}
    failures = []
    stale = []
    fired = silent = 0
    for mid, status, res in results:
        m = byid[mid]
        if status == 'stale':
            stale.append((mid, res))
            continue
        if status == 'broken':
            failures.append('%s: %s' % (mid, res))
            continue
        for p in props:
            code, rules, out = res[p]
            new = set(tuple(r) for r in rules) - set(base[p][1])
            new_rules = set(r for r, _ in new)
            if m['kind'] == 'fire':
                want = set(m['fire'].get(p, []))
                if not want:
                    continue
                if code == 2:
                    # fail-closed is acceptable only when declared
                    if 'ANALYSIS-ERROR' in want:
                        fired += 1
                        continue
                    failures.append('%s: %s check ended in ANALYSIS-ERROR: %s'
                                    % (mid, p, out.strip().splitlines()[-1:]))
                    continue
                if not (want & new_rules):
                    failures.append('%s: %s expected one of %s to fire, got %s'
                                    % (mid, p, sorted(want), sorted(new_rules)))
                else:
                    fired += 1
            else:
                if code == 2:
                    failures.append('%s: %s silent variant ended in ANALYSIS-ERROR: %s'
                                    % (mid, p, out.strip().splitlines()[-1:]))
                elif new:
                    failures.append('%s: %s silent variant raised %s' % (mid, p, sorted(new)))
                else:
                    silent += 1
    if verbose:
        print('selftest %s: %d matrix entries, %d fired as required, %d stayed silent as '
              'required, %d stale (anchor text changed), %d failure(s) [%.1fs]'
              % (prop, len(matrix), fired, silent, len(stale), len(failures),
                 time.time() - t0))
        for s in stale:
            print('  stale: %s: %s' % s)
    # record in evidence
    evp = os.path.join(VERIF, 'evidence', '%s.json' % prop)
    if os.path.exists(evp):
        with open(evp) as fh:
            ev = json.load(fh)
        ev['coverage']['selftest'] = {
            'matrix_entries': len(matrix), 'fired': fired, 'silent': silent,
            'stale': [s[0] for s in stale], 'failures': failures,
            'entries': [{'id': m['id'], 'kind': m['kind'], 'what': m.get('what', '')}
                        for m in matrix]}
        ev['wall_s'] = round(ev.get('wall_s', 0) + time.time() - t0, 3)
        with open(evp, 'w') as fh:
            json.dump(ev, fh, indent=1, sort_keys=True, default=str)
    if failures:
        for f in failures:
            print('  selftest failure: %s' % f)
        print('ANALYSIS-ERROR property=%s self-test of the checker failed' % prop)
        return 2
    return 0


def main():
    import argparse
    ap = argparse.ArgumentParser()
    ap.add_argument('props', nargs='*')
    ap.add_argument('--repo', default='/repo')
    a = ap.parse_args()
    props = a.props or sorted(set(p for m in load_matrix() for p in m['props']))
    rc = 0
    for p in props:
        rc = max(rc, run_for(p, a.repo))
    return rc


if __name__ == '__main__':
    sys.exit(main())
